"""Build pipeline: lowers /repo's current working tree to LLVM bitcode (and native objects).

Everything is keyed by the content hash of each translation unit's dependency closure, so a
run always reflects /repo's working tree; unchanged TUs are reused from /verif/.cache/build.
Only python3 stdlib is used.
"""
import fcntl
import hashlib
import json
import os
import re
import shutil
import subprocess
import sys
import tempfile
import time
from concurrent.futures import ThreadPoolExecutor

VERIF = os.path.dirname(os.path.dirname(os.path.abspath(__file__)))
REPO = os.environ.get("VERIF_REPO", "/repo")
CACHE = os.environ.get("VERIF_CACHE", os.path.join(VERIF, ".cache"))
BUILD = os.path.join(CACHE, "build")
OBJ = os.path.join(BUILD, "obj")
GEN = os.path.join(BUILD, "gen")
LLVM_BIN = "/usr/lib/llvm-14/bin"
CLANGXX = os.path.join(LLVM_BIN, "clang++")
LLVM_LINK = os.path.join(LLVM_BIN, "llvm-link")
SITE = "/venv/lib/python3.12/site-packages"
JOBS = int(os.environ.get("VERIF_JOBS", "16"))

COMMON_FLAGS = [
    "-std=c++2b", "-O1", "-gline-tables-only", "-fno-vectorize", "-fno-slp-vectorize",
    "-fno-crash-diagnostics", "-fPIC", "-pthread",
    "-DHGRAPH_STATIC_DEFINE", "-DHGRAPH_ENABLE_PYTHON_USER_NODES=0",
    "-DSPDLOG_FMT_EXTERNAL", "-DFMT_HEADER_ONLY", "-Wno-everything",
]


def include_flags(extra_first=()):
    inc = []
    for d in extra_first:
        inc += ["-I", d]
    inc += ["-I", GEN, "-I", os.path.join(REPO, "include"), "-I", os.path.join(REPO, "include", "third_party"),
            "-I", os.path.join(REPO, "src"),
            "-I", os.path.join(VERIF, "hk"),
            "-isystem", os.path.join(SITE, "include"), "-isystem", os.path.join(SITE, "pyarrow", "include")]
    return inc


# TUs that are not part of any claim and are never compiled (python bridge needs nanobind / Python.h)
EXCLUDE_PREFIXES = ("src/hgraph/python/",)
# Outside every claim and not digestible by clang 14 / libstdc++ 12 (frontend crash on the operator
# template layer, <chrono> tzdb / from_stream): never attempted, so a header edit does not pay for
# seventeen compiler crashes.  Their symbols become abort-stubs in native links.
EXCLUDE_FILES = {
    "src/hgraph/types/temporal.cpp", "src/hgraph/types/time_zone_provider.cpp", "src/hgraph/types/value/json_codec.cpp",
}
STDLIB_OPERATOR_TUS_USED = {"higher_order_impl.cpp"}


def sha(b):
    return hashlib.sha256(b).hexdigest()


_file_hash_cache = {}


def file_hash(p):
    try:
        st = os.stat(p)
    except OSError:
        return "missing"
    k = (p, st.st_mtime_ns, st.st_size)
    h = _file_hash_cache.get(k)
    if h is None:
        with open(p, "rb") as f:
            h = sha(f.read())
        _file_hash_cache[k] = h
    return h


def ensure_dirs():
    for d in (OBJ, GEN, os.path.join(GEN, "hgraph")):
        os.makedirs(d, exist_ok=True)


def _ancestor_is_flock():
    """True when this process runs under `flock /tmp/repo_mutant.lock ...` (development-time seeded-fault runs)."""
    pid = os.getpid()
    for _ in range(12):
        try:
            stat = open("/proc/%d/stat" % pid).read()
            ppid = int(stat[stat.rindex(")") + 2:].split()[1])
            cmd = open("/proc/%d/cmdline" % ppid).read()
        except Exception:
            return False
        if "flock" in cmd and "repo_mutant.lock" in cmd:
            return True
        if ppid <= 1:
            return False
        pid = ppid
    return False


def _some_writer_exists():
    try:
        for d in os.listdir("/proc"):
            if d.isdigit():
                try:
                    cmd = open("/proc/%s/cmdline" % d).read()
                except Exception:
                    continue
                if cmd.startswith("flock") and "repo_mutant.lock" in cmd:
                    return True
    except Exception:
        pass
    return False


class Lock:
    """Serialises builds on the cache.  While developing, other sessions may temporarily edit /repo under
    `flock /tmp/repo_mutant.lock`; builds that are not part of such a session wait (shared lock) so they
    never compile somebody else's seeded fault."""

    def __enter__(self):
        ensure_dirs()
        self.m = None
        try:
            if REPO == "/repo" and not _ancestor_is_flock():
                # writer preference: while some session is waiting for (or holding) the exclusive lock, do not
                # join the readers - flock itself would let a stream of readers starve the writer
                for _ in range(150):  # at most 5 minutes of deference to a waiting writer
                    if not _some_writer_exists():
                        break
                    time.sleep(2)
                self.m = open("/tmp/repo_mutant.lock", "a")
                fcntl.flock(self.m, fcntl.LOCK_SH)
        except OSError:
            self.m = None
        self.f = open(os.path.join(BUILD, ".lock"), "w")
        fcntl.flock(self.f, fcntl.LOCK_EX)
        return self

    def __exit__(self, *a):
        fcntl.flock(self.f, fcntl.LOCK_UN)
        self.f.close()
        if self.m:
            fcntl.flock(self.m, fcntl.LOCK_UN)
            self.m.close()


def gen_version_header():
    src = os.path.join(REPO, "include", "hgraph", "version.h.in")
    dst = os.path.join(GEN, "hgraph", "version.h")
    txt = open(src).read()
    for k, v in {"PROJECT_VERSION_MAJOR": "0", "PROJECT_VERSION_MINOR": "0", "PROJECT_VERSION_PATCH": "0",
                 "PROJECT_VERSION": "0.0.0", "HGRAPH_GIT_BRANCH": "verif", "HGRAPH_GIT_COMMIT_HASH": "worktree",
                 "HGRAPH_GIT_COMMIT_DATE": "n/a"}.items():
        txt = txt.replace("@%s@" % k, v)
    if not os.path.exists(dst) or open(dst).read() != txt:
        with open(dst, "w") as f:
            f.write(txt)


def repo_tus():
    out = []
    for root, _d, files in os.walk(os.path.join(REPO, "src")):
        for fn in files:
            if fn.endswith(".cpp"):
                rel = os.path.relpath(os.path.join(root, fn), REPO)
                if rel.startswith(EXCLUDE_PREFIXES) or rel in EXCLUDE_FILES:
                    continue
                if rel.startswith("src/hgraph/lib/std/operators/") and fn not in STDLIB_OPERATOR_TUS_USED:
                    continue
                out.append(rel)
    return sorted(out)


def load_index():
    p = os.path.join(BUILD, "index.json")
    if os.path.exists(p):
        try:
            return json.load(open(p))
        except Exception:
            return {}
    return {}


def save_index(ix):
    p = os.path.join(BUILD, "index.json")
    tmp = p + ".tmp%d" % os.getpid()
    with open(tmp, "w") as f:
        json.dump(ix, f)
    os.replace(tmp, p)


def parse_depfile(path):
    txt = open(path).read().replace("\\\n", " ")
    _, _, rest = txt.partition(":")
    return sorted(set(x for x in rest.split() if x))


def _norm(p):
    """Paths under the repository root are recorded root-relative so that a scratch worktree of the
    repository (VERIF_REPO=...) shares the build cache with /repo."""
    if p.startswith(REPO + "/"):
        return "$REPO/" + p[len(REPO) + 1:]
    return p


def _denorm(p):
    return REPO + p[5:] if p.startswith("$REPO/") else p


def deps_key(deps, flags):
    h = hashlib.sha256()
    h.update(json.dumps([_norm(f) for f in flags]).encode())
    for d in deps:
        d = _denorm(d)
        if d.startswith("/usr/") or d.startswith(SITE):
            continue  # system / installed third-party headers: fixed in the sealed sandbox
        h.update(_norm(d).encode())
        h.update(file_hash(d).encode())
    return h.hexdigest()


def apply_compat(rel, text):
    """Exact-match, semantics-preserving rewrites needed to get clang 14 through two TUs.
    Returns (text, [rule names applied])."""
    from compat_rules import RULES
    applied = []
    for r in RULES:
        if r["file"] == rel and r["old"] in text:
            text = text.replace(r["old"], r["new"])
            applied.append(r["name"])
    return text, applied


def compile_one(src_abs, key_name, flags, inc, index, kind="bc", force_src_text=None, src_dir=None):
    """Compile src to bitcode with caching. Returns dict(ok, bc, log, deps, cached)."""
    ent = index.get(key_name)
    if ent and "deps" in ent:
        k = deps_key(ent["deps"], flags + inc)
        if k == ent.get("key"):
            if ent.get("ok") and os.path.exists(os.path.join(OBJ, k + ".bc")):
                return dict(ok=True, bc=os.path.join(OBJ, k + ".bc"), cached=True, key=k, name=key_name, compat=ent.get("compat", []))
            if not ent.get("ok") and key_name.startswith("repo:"):
                return dict(ok=False, log=ent.get("log", ""), cached=True, key=k, name=key_name)
        elif os.path.exists(os.path.join(OBJ, k + ".bc")):
            # same dependency contents as an earlier build (e.g. an edit that was reverted)
            index[key_name] = dict(deps=ent["deps"], key=k, ok=True, compat=ent.get("compat", []))
            return dict(ok=True, bc=os.path.join(OBJ, k + ".bc"), cached=True, key=k, name=key_name, compat=ent.get("compat", []))
    os.makedirs(os.path.join(CACHE, "work"), exist_ok=True)
    tmpd = tempfile.mkdtemp(prefix="verifcc_", dir=os.path.join(CACHE, "work"))
    try:
        compat = []
        real_src = src_abs
        extra_inc = []
        if force_src_text is not None:
            real_src = os.path.join(tmpd, os.path.basename(src_abs))
            with open(real_src, "w") as f:
                f.write(force_src_text[0])
            compat = force_src_text[1]
            extra_inc = ["-I", os.path.dirname(src_abs)]
        out = os.path.join(tmpd, "out.bc")
        dep = os.path.join(tmpd, "out.d")
        cmd = [CLANGXX, "-c", "-emit-llvm", real_src, "-o", out, "-MD", "-MF", dep] + flags + extra_inc + inc
        for _attempt in range(4):
            t_compile = time.time()
            p = subprocess.run(cmd, stdout=subprocess.PIPE, stderr=subprocess.STDOUT, text=True, cwd=tmpd)
            ok = p.returncode == 0 and os.path.exists(out)
            if os.path.exists(dep):
                deps = parse_depfile(dep)
                deps = [_norm(src_abs if d == real_src else d) for d in deps]
            else:
                deps = None
            # The cache key is computed from the dependency contents AFTER the compile: if any repository file was
            # modified while the compiler was running, the object may not correspond to the contents we would hash.
            unstable = False
            for d in (deps or []):
                dd = _denorm(d)
                if dd.startswith(REPO + "/") or dd == src_abs:
                    try:
                        if os.stat(dd).st_mtime >= t_compile - 2.0:
                            unstable = True
                            break
                    except OSError:
                        unstable = True
                        break
            if not unstable:
                break
            time.sleep(2.5)  # let the editor finish; then compile again against settled files
        if deps is None or not ok:
            # failed compile: depend on every repo header + the TU so any edit retries
            deps = [_norm(src_abs)] + [_norm(x) for x in all_repo_headers()]
        k = deps_key(deps, flags + inc)
        res = dict(ok=ok, cached=False, key=k, name=key_name, compat=compat)
        if ok:
            shutil.move(out, os.path.join(OBJ, k + ".bc"))
            res["bc"] = os.path.join(OBJ, k + ".bc")
            index[key_name] = dict(deps=deps, key=k, ok=True, compat=compat)
        else:
            log = p.stdout[-3000:]
            res["log"] = log
            if key_name.startswith("repo:"):
                index[key_name] = dict(deps=deps, key=k, ok=False, log=log)
            else:
                index.pop(key_name, None)  # failures of /verif sources are never cached
        return res
    finally:
        shutil.rmtree(tmpd, ignore_errors=True)


_hdr_cache = None


def all_repo_headers():
    global _hdr_cache
    if _hdr_cache is None:
        out = []
        for base in ("include", "src"):
            for root, _d, files in os.walk(os.path.join(REPO, base)):
                for fn in files:
                    if fn.endswith((".h", ".hpp", ".inl")):
                        out.append(os.path.join(root, fn))
        _hdr_cache = sorted(out)
    return _hdr_cache


def build_repo(log=lambda s: None):
    """Compile every repo TU (that clang 14 can digest) to bitcode. Returns (ok_list, failed_list)."""
    ensure_dirs()
    gen_version_header()
    sys.path.insert(0, os.path.join(VERIF, "compat"))
    index = load_index()
    tus = repo_tus()
    inc = include_flags()
    results = []

    def work(rel):
        src = os.path.join(REPO, rel)
        text = open(src).read()
        new, applied = apply_compat(rel, text)
        force = (new, applied) if applied else None
        return compile_one(src, "repo:" + rel, COMMON_FLAGS, inc, index, force_src_text=force)

    t0 = time.time()
    with ThreadPoolExecutor(max_workers=JOBS) as ex:
        results = list(ex.map(work, tus))
    save_index(index)
    ok = [r for r in results if r["ok"]]
    bad = [r for r in results if not r["ok"]]
    log("repo build: %d ok (%d cached), %d not compilable, %.1fs" % (
        len(ok), sum(1 for r in ok if r["cached"]), len(bad), time.time() - t0))
    return ok, bad


def link_bc(inputs, out):
    subprocess.run([LLVM_LINK, "-o", out] + inputs, check=True)


def runtime_module(ok, log=lambda s: None):
    """One linked bitcode module of all compilable repo TUs (cached by the set of keys)."""
    h = sha("\n".join(sorted(r["key"] for r in ok)).encode())[:32]
    out = os.path.join(OBJ, "runtime-" + h + ".bc")
    if not os.path.exists(out):
        t0 = time.time()
        # drop stale runtime modules (disk hygiene): keep the three most recent ones and everything used in the last 6 hours
        # (a long thorough run of another check, or a seeded-fault run in a scratch worktree, may still be reading its module)
        olds = sorted((fn for fn in os.listdir(OBJ) if fn.startswith("runtime-") and fn.endswith(".bc")),
                      key=lambda fn: os.path.getmtime(os.path.join(OBJ, fn)))
        for fn in olds[:-3]:
            try:
                if time.time() - os.path.getmtime(os.path.join(OBJ, fn)) > 6 * 3600:
                    os.unlink(os.path.join(OBJ, fn))
            except OSError:
                pass
        tmp = out + ".tmp%d" % os.getpid()
        link_bc([r["bc"] for r in ok], tmp)
        os.replace(tmp, out)
        log("linked runtime module in %.1fs" % (time.time() - t0))
    else:
        try:
            os.utime(out)  # mark as in use
        except OSError:
            pass
    return out


def native_object(bc, log=lambda s: None):
    o = bc[:-3] + ".o"
    if not os.path.exists(o):
        tmp = o + ".tmp%d" % os.getpid()
        subprocess.run([CLANGXX, "-c", "-O1", "-fPIC", "-Wno-everything", bc, "-o", tmp], check=True)
        os.replace(tmp, o)
    return o


def compile_aux(path, name, extra_flags=(), log=lambda s: None):
    """Compile a /verif source (harness, rt model) to bitcode with the same flags."""
    index = load_index()
    r = compile_one(path, name, COMMON_FLAGS + list(extra_flags), include_flags(), index)
    save_index(index)
    return r


def gc_cache(keep_keys):
    """Remove cached objects not referenced by the index (disk hygiene)."""
    index = load_index()
    live = set(e.get("key") for e in index.values()) | set(keep_keys)
    for fn in os.listdir(OBJ):
        stem = fn.split(".")[0]
        if fn.startswith("runtime-") or stem in live:
            continue
        try:
            os.unlink(os.path.join(OBJ, fn))
        except OSError:
            pass


if __name__ == "__main__":
    with Lock():
        ok, bad = build_repo(print)
        for b in bad:
            print("NOT COMPILABLE:", b["name"])
            if "-v" in sys.argv:
                print(b.get("log", "")[-1500:])
        rt = runtime_module(ok, print)
        print(rt)

"""Check driver: build -> symx (sharded) -> validate (reach, witness, native differential) ->
replay counterexamples natively -> evidence / exit code.  python3 stdlib only."""
import hashlib
import json
import os
import re
import shutil
import subprocess
import sys
import tempfile
import time
from concurrent.futures import ThreadPoolExecutor

sys.path.insert(0, os.path.dirname(os.path.abspath(__file__)))
import vbuild  # noqa: E402
from vbuild import VERIF, REPO, CACHE, OBJ  # noqa: E402

SYMX = os.path.join(CACHE, "symx")
OUTROOT = os.environ.get("VERIF_OUT", VERIF)  # development: seeded-fault runs write their evidence/replays elsewhere
EVID = os.path.join(OUTROOT, "evidence")
REPLAYS = os.path.join(OUTROOT, "replays")
KNOWN = os.path.join(VERIF, "known_findings.jsonl")
EXIT_OK, EXIT_VIOLATION, EXIT_HARNESS = 0, 1, 3


def log(msg):
    print("[check] " + msg, flush=True)


class HarnessError(Exception):
    pass


# ------------------------------------------------------------------ build
def build_engine():
    r = subprocess.run([os.path.join(VERIF, "engine", "build.sh")], stdout=subprocess.PIPE, stderr=subprocess.STDOUT, text=True)
    if r.returncode != 0 or not os.path.exists(SYMX):
        raise HarnessError("engine build failed:\n" + r.stdout[-3000:])


def rt_modules():
    out = []
    for fn in sorted(os.listdir(os.path.join(VERIF, "rt"))):
        if fn.endswith(".cpp"):
            r = vbuild.compile_aux(os.path.join(VERIF, "rt", fn), "rt:" + fn)
            if not r["ok"]:
                raise HarnessError("rt model %s does not compile:\n%s" % (fn, r.get("log", "")))
            out.append(r["bc"])
    return out


def defs_flags(defs):
    return ["-D%s=%s" % (k, v) for k, v in sorted(defs.items())]


def native_runtime_lib(ok, failed_names):
    """Partial link of all runtime objects + abort stubs for symbols of TUs clang 14 cannot compile."""
    h = vbuild.sha("\n".join(sorted(r["key"] for r in ok)).encode())[:32]
    out = os.path.join(OBJ, "runtime-native-" + h + ".o")
    if os.path.exists(out):
        return out
    olds = sorted((fn for fn in os.listdir(OBJ) if fn.startswith("runtime-native-")), key=lambda fn: os.path.getmtime(os.path.join(OBJ, fn)))
    for fn in olds[:-3]:
        try:
            os.unlink(os.path.join(OBJ, fn))
        except OSError:
            pass
    t0 = time.time()
    with ThreadPoolExecutor(max_workers=vbuild.JOBS) as ex:
        objs = list(ex.map(lambda r: vbuild.native_object(r["bc"]), ok))
    tmp = out + ".tmp%d" % os.getpid()
    subprocess.run(["ld", "-r", "-o", tmp] + objs, check=True)
    os.replace(tmp, out)
    log("native runtime objects linked in %.1fs" % (time.time() - t0))
    return out


ARROW_DIR = os.path.join(vbuild.SITE, "pyarrow")
ARROW_LIBS = ["-L" + ARROW_DIR, "-l:libarrow.so.2500", "-l:libarrow_compute.so.2500", "-l:libarrow_acero.so.2500",
              "-Wl,-rpath," + ARROW_DIR]


def link_native(harness_bc, runtime_o, out, use_runtime):
    """Link the native replay binary; generates abort stubs for undefined symbols of uncompilable TUs."""
    hobj = vbuild.native_object(harness_bc)
    vn = vbuild.compile_aux(os.path.join(VERIF, "hk", "verif_native.cpp"), "hk:verif_native.cpp")
    if not vn["ok"]:
        raise HarnessError("verif_native.cpp does not compile:\n" + vn.get("log", ""))
    vobj = vbuild.native_object(vn["bc"])
    base = [vbuild.CLANGXX, "-o", out, hobj, vobj] + ([runtime_o] + ARROW_LIBS if use_runtime else []) + ["-pthread", "-ldl", "-Wl,--gc-sections"]
    stubs_src = out + "_missing_stubs.cpp"
    for attempt in range(3):
        cmd = list(base)
        if os.path.exists(stubs_src):
            cmd.append(stubs_src)
        p = subprocess.run(cmd, stdout=subprocess.PIPE, stderr=subprocess.STDOUT, text=True)
        if p.returncode == 0:
            return
        syms = sorted(set(re.findall(r"undefined reference to `([^']+)'", p.stdout)))
        msyms = sorted(set(re.findall(r"undefined (?:reference to|symbol:?) [`']?([_A-Za-z0-9$.]+)", p.stdout)))
        if not syms and not msyms:
            raise HarnessError("native link failed:\n" + p.stdout[-3000:])
        # we need mangled names: ask the linker again without demangling
        p2 = subprocess.run(cmd + ["-Wl,--no-demangle"], stdout=subprocess.PIPE, stderr=subprocess.STDOUT, text=True)
        mangled = sorted(set(re.findall(r"undefined reference to `([^']+)'", p2.stdout)))
        if not mangled:
            raise HarnessError("native link failed:\n" + p.stdout[-3000:])
        with open(stubs_src, "a") as f:
            if attempt == 0:
                f.write("#include <cstdio>\n#include <cstdlib>\n")
            for i, m in enumerate(mangled):
                f.write('extern "C" void verif_missing_%d_%d() __asm__("%s");\n' % (attempt, i, m))
                f.write('extern "C" void verif_missing_%d_%d(){ std::fprintf(stderr,"CRASH call into a TU that clang 14 cannot compile: %s\\n"); std::abort(); }\n' % (attempt, i, m))
    raise HarnessError("native link failed after stub generation")


class Built:
    pass


def build_harness(h, tier, work):
    """Returns Built(modules=[...bc for symx], native=path, info=...)"""
    b = Built()
    t0 = time.time()
    with vbuild.Lock():
        build_engine()
        ok, bad = vbuild.build_repo(log)
        b.not_compilable = [x["name"] for x in bad]
        b.compat = sorted(set(c for r in ok for c in r.get("compat", [])))
        use_rt = h.get("runtime", True)
        need = h.get("needs_tus", [])
        have = set(r["name"] for r in ok)
        for n in need:
            if "repo:" + n not in have:
                raise HarnessError("required TU %s does not compile with clang 14 on this tree:\n%s" % (
                    n, next((x.get("log", "") for x in bad if x["name"] == "repo:" + n), "")[-2000:]))
        rts = rt_modules()
        defs = dict(h.get("defs", {}))
        defs.update(h.get(tier, {}).get("defs", {}))
        gen_flags = []
        if h.get("pre_build"):
            gen_flags = h["pre_build"](work)
        hr = vbuild.compile_aux(os.path.join(VERIF, h["src"]), "harness:%s:%s" % (h["name"], tier), defs_flags(defs) + gen_flags)
        if not hr["ok"]:
            raise HarnessError("harness %s does not compile against this tree:\n%s" % (h["name"], hr.get("log", "")[-3000:]))
        b.defs = defs
        b.modules = [hr["bc"]] + rts
        runtime_o = None
        if use_rt:
            b.modules.append(vbuild.runtime_module(ok, log))
            runtime_o = native_runtime_lib(ok, b.not_compilable)
        b.native = os.path.join(work, "native_" + h["name"])
        link_native(hr["bc"], runtime_o, b.native, use_rt)
    b.build_s = time.time() - t0
    return b


# ------------------------------------------------------------------ run
def run_symx(h, tier, b, work):
    cfg = dict(h.get("symx", {}))
    cfg.update(h.get(tier, {}).get("symx", {}))
    nsh = int(cfg.get("shards", 16))
    args = []
    for k in ("max-steps", "max-wall", "max-paths", "query-timeout-ms", "shard-depth", "max-preempt", "enum-cap", "samples"):
        if k in cfg:
            args += ["--" + k, str(cfg[k])]
    # the schedule recorded in a counterexample is only meaningful under the same scheduling parameters
    b.replay_args = []
    for k in ("max-preempt", "enum-cap", "max-steps"):
        if k in cfg:
            b.replay_args += ["--" + k, str(cfg[k])]
    outs = []
    procs = []
    t0 = time.time()
    dump_dir = None
    if tier == "thorough":
        dump_dir = os.path.join(work, "queries_" + h["name"])
        os.makedirs(dump_dir, exist_ok=True)
        args += ["--dump-assert-queries", dump_dir]
    for i in range(nsh):
        o = os.path.join(work, "symx_%s_%d.json" % (h["name"], i))
        outs.append(o)
        cmd = [SYMX] + b.modules + ["--out", o] + args + (["--shard", "%d/%d" % (i, nsh)] if nsh > 1 else [])
        procs.append(subprocess.Popen(cmd, stdout=subprocess.PIPE, stderr=subprocess.PIPE, text=True))
    res = []
    hard_cap = float(cfg.get("max-wall", 3600)) + 600
    for p, o in zip(procs, outs):
        try:
            so, se = p.communicate(timeout=max(10, hard_cap - (time.time() - t0)))
        except subprocess.TimeoutExpired:
            p.kill()
            so, se = p.communicate()
            raise HarnessError("symx shard exceeded the hard wall cap")
        if p.returncode not in (0, 1) or not os.path.exists(o):
            raise HarnessError("symx failed (rc=%s): %s" % (p.returncode, (se or so)[-2000:]))
        res.append(json.load(open(o)))
    return res, time.time() - t0, dump_dir


def cross_check_queries(dump_dir, cap=60, timeout=60):
    """Thorough tier: a sample of the assertion queries that symx's z3 5.1 discharged (unsat) is re-decided by the
    system z3 4.8.12 and by cvc5.  'sat' from either is a disagreement (harness error); timeouts/unknown are counted."""
    files = sorted(os.listdir(dump_dir))[:cap] if dump_dir and os.path.isdir(dump_dir) else []
    stats = dict(checked=0, z3_unsat=0, cvc5_unsat=0, inconclusive=0, disagreements=[])

    def one(fn):
        p = os.path.join(dump_dir, fn)
        out = {}
        for name, cmd in (("z3", ["/usr/bin/z3", "-T:%d" % timeout, p]), ("cvc5", ["cvc5", "--tlimit=%d" % (timeout * 1000), p])):
            try:
                r = subprocess.run(cmd, stdout=subprocess.PIPE, stderr=subprocess.STDOUT, text=True, timeout=timeout + 10)
                txt = r.stdout.strip().splitlines()
                ans = next((l for l in txt if l in ("sat", "unsat", "unknown")), "unknown")
                if any("(error" in l for l in txt):
                    ans = "unknown"
            except Exception:
                ans = "unknown"
            out[name] = ans
        return fn, out

    with ThreadPoolExecutor(max_workers=8) as ex:
        for fn, out in ex.map(one, files):
            stats["checked"] += 1
            for name in ("z3", "cvc5"):
                if out[name] == "unsat":
                    stats[name + "_unsat"] += 1
                elif out[name] == "sat":
                    stats["disagreements"].append("%s: %s says sat" % (fn, name))
                else:
                    stats["inconclusive"] += 1
    return stats


SUM_KEYS = ["paths", "paths_ok", "paths_infeasible", "paths_error", "paths_inconclusive", "states", "forks", "steps",
            "queries", "q_sat", "q_unsat", "q_unknown", "model_hits", "cache_hits", "solver_s", "distinct_nontrivial"]
MAP_KEYS = ["reach", "asserts_checked", "asserts_proved_by_solver", "error_kinds", "inconclusive_kinds", "viol_count"]


def merge(res):
    m = {k: 0 for k in SUM_KEYS}
    for k in MAP_KEYS:
        m[k] = {}
    m["violations"], m["samples"], m["error_samples"], m["stubs"] = [], [], [], set()
    m["reach_witness"] = {}
    funcs = {}
    for r in res:
        for k in SUM_KEYS:
            m[k] += r.get(k, 0)
        for k in MAP_KEYS:
            for kk, v in r.get(k, {}).items():
                m[k][kk] = m[k].get(kk, 0) + v
        m["violations"] += r["violations"]
        m["samples"] += r["samples"]
        m["error_samples"] += r["error_samples"]
        m["stubs"] |= set(r["stubs"])
        for k, v in r["reach_witness"].items():
            m["reach_witness"].setdefault(k, v)
        for name, file, n, cnt in r["functions"]:
            f = funcs.setdefault(name, [file, n, 0])
            f[2] += cnt
    m["functions"] = funcs
    m["stubs"] = sorted(m["stubs"])
    m["wall_max_shard_s"] = max(r["wall_s"] for r in res)
    return m


def run_native(b, model, work, tag):
    inp = os.path.join(work, "in_%s.txt" % tag)
    tr = os.path.join(work, "tr_%s.txt" % tag)
    with open(inp, "w") as f:
        for k, v in model.items():
            f.write("%s %s\n" % (k, v))
    env = dict(os.environ, VERIF_INPUT=inp, VERIF_TRACE=tr)
    try:
        p = subprocess.run([b.native], env=env, stdout=subprocess.PIPE, stderr=subprocess.PIPE, text=True, timeout=120)
        rc = p.returncode
        err = p.stderr[-1500:]
    except subprocess.TimeoutExpired:
        rc, err = -9, "native replay timed out"
    lines = []
    if os.path.exists(tr):
        lines = [l.rstrip("\n") for l in open(tr)]
    return rc, lines, err


def run_interpreted(b, model, decisions, work, tag):
    """Replay a path of a threaded harness in symx's concrete mode (inputs + recorded schedule choices)."""
    inp = os.path.join(work, "iin_%s.txt" % tag)
    out = os.path.join(work, "iout_%s.json" % tag)
    with open(inp, "w") as f:
        for k, val in model.items():
            f.write("%s %s\n" % (k, val))
    cmd = [SYMX] + b.modules + ["--out", out, "--inputs", inp, "--sched", decisions or "-"] + getattr(b, "replay_args", [])
    try:
        p = subprocess.run(cmd, stdout=subprocess.PIPE, stderr=subprocess.PIPE, text=True, timeout=300)
    except subprocess.TimeoutExpired:
        return -9, [], []
    if not os.path.exists(out):
        return p.returncode, ["symx stderr: " + (p.stderr or "")[-400:]], []
    d = json.load(open(out))
    trace = d["samples"][0]["trace"] if d["samples"] else []
    return p.returncode, trace, [x["id"] for x in d["violations"]] + (["crash"] if d["paths_error"] else [])


def load_known():
    out = []
    if os.path.exists(KNOWN):
        for l in open(KNOWN):
            l = l.strip()
            if l.startswith("{"):
                out.append(json.loads(l))
    return out


def matches_known(kf, pid, hname, vid, model):
    if kf.get("status") == "fixed":
        return False
    if kf.get("property") != pid or kf.get("harness") != hname:
        return False
    if kf.get("assert_id") not in (None, vid):
        return False
    pred = kf.get("pred")
    if not pred:
        return True
    m = {k: int(v) for k, v in model.items()}
    try:
        env = {"__builtins__": {}, "m": m, "any": any, "all": all, "range": range, "len": len, "min": min, "max": max, "sum": sum, "int": int, "sorted": sorted}
        return bool(eval(pred, env))  # names live in globals so that comprehensions inside pred can see them
    except Exception:
        return False


COMPAT_FILES = {"graph_wiring.cpp": "src/hgraph/types/graph_wiring.cpp", "reduce_node.cpp": "src/hgraph/runtime/reduce_node.cpp"}


def repo_relative(path):
    """Repository-relative name of a source file recorded in debug info.  Cached objects are shared between the
    repository and scratch worktrees of it (content-keyed), so the recorded directory may be any checkout root."""
    p = os.path.normpath(path.replace("//", "/"))
    for marker in ("/src/hgraph/", "/include/hgraph/", "/include/third_party/"):
        i = p.find(marker)
        if i >= 0:
            return p[i + 1:]
    if "/verifcc_" in p and os.path.basename(p) in COMPAT_FILES:
        return COMPAT_FILES[os.path.basename(p)]
    return None


def source_file_of(path):
    p = os.path.normpath(path.replace("//", "/"))
    return p


def check_property(pid, tier, harnesses, seed=0):
    t_start = time.time()
    os.makedirs(EVID, exist_ok=True)
    os.makedirs(os.path.join(CACHE, "work"), exist_ok=True)
    work = tempfile.mkdtemp(prefix="verif_%s_" % pid, dir=os.path.join(CACHE, "work"))
    known = load_known()
    status = EXIT_OK
    problems = []
    violations_out = []
    known_lines = []
    cov = dict(states=0, transitions=0, traces_validated_against_impl=0, samples=[], evaluations=0, distinct_nontrivial=0,
               queries=0, solver_time_s=0.0, inconclusive_paths=0, harnesses={}, functions_encoded=[], stubs=[], bounds={}, reach={})
    assumptions = []
    try:
        for h in harnesses:
            if tier not in h.get("tiers", ("quick", "thorough")):
                continue
            log("%s/%s: building from %s" % (pid, h["name"], REPO))
            b = build_harness(h, tier, work)
            log("%s/%s: build %.1fs; running symx" % (pid, h["name"], b.build_s))
            res, wall, dump_dir = run_symx(h, tier, b, work)
            m = merge(res)
            log("%s/%s: paths=%d ok=%d err=%d inconclusive=%d queries=%d (sat %d/unsat %d/unknown %d, cache %d) solver=%.1fs wall=%.1fs" % (
                pid, h["name"], m["paths"], m["paths_ok"], m["paths_error"], m["paths_inconclusive"], m["queries"], m["q_sat"], m["q_unsat"],
                m["q_unknown"], m["cache_hits"], m["solver_s"], wall))
            hcov = dict(paths=m["paths"], paths_ok=m["paths_ok"], paths_error=m["paths_error"], paths_inconclusive=m["paths_inconclusive"],
                        states=m["states"], forks=m["forks"], ir_steps=m["steps"], queries=m["queries"], q_sat=m["q_sat"], q_unsat=m["q_unsat"],
                        q_unknown=m["q_unknown"], query_cache_hits=m["cache_hits"], solver_s=round(m["solver_s"], 2), wall_s=round(wall, 2),
                        build_s=round(b.build_s, 2), reach=m["reach"], asserts_checked=m["asserts_checked"],
                        asserts_discharged_by_solver=m["asserts_proved_by_solver"], inconclusive_kinds=m["inconclusive_kinds"],
                        error_kinds=m["error_kinds"], bounds=dict(b.defs, **{"_text": h.get("bounds", "")}), outside=h.get("outside", ""),
                        not_compilable_tus=b.not_compilable, compat_rewrites=b.compat)
            if dump_dir:
                xs = cross_check_queries(dump_dir)
                hcov["second_solver_cross_check"] = xs
                if xs["disagreements"]:
                    problems.append("%s: solver disagreement on discharged assertion queries: %s" % (h["name"], xs["disagreements"][:3]))
            # ---- engine errors are never folded into "passed"
            non_crash_errors = {k: v for k, v in m["error_kinds"].items() if not k.startswith("crash:")}
            if non_crash_errors:
                problems.append("%s: engine could not execute %d path(s): %s" % (h["name"], sum(non_crash_errors.values()), json.dumps(non_crash_errors)[:600]))
                for s in m["error_samples"][:5]:
                    log("  engine error sample: " + s[:400])
            if m["paths_ok"] == 0:
                problems.append("%s: no path completed" % h["name"])
            # ---- vacuity: required reach labels, witness replay
            for lab in h.get("reach", []) + h.get(tier, {}).get("reach", []):
                if m["reach"].get(lab, 0) == 0:
                    problems.append("%s: required reach label '%s' was hit on no path (vacuous harness?)" % (h["name"], lab))
            wit_ok = 0
            threaded = bool(h.get("threads"))
            for lab in (h.get("reach", []) + h.get(tier, {}).get("reach", []))[:6]:
                if threaded:
                    break
                if lab in m["reach_witness"]:
                    rc, lines, err = run_native(b, m["reach_witness"][lab], work, "wit")
                    if ("R " + lab) in lines and rc in (0, 1):
                        wit_ok += 1
                    else:
                        problems.append("%s: witness for reach label '%s' does not replay natively (rc=%s) %s" % (h["name"], lab, rc, err[-300:]))
            hcov["witnesses_replayed"] = wit_ok
            # ---- differential: symbolic-run traces vs native traces on sampled paths
            nval = int(h.get(tier, {}).get("validate", h.get("validate", 8 if tier == "quick" else 32)))
            samples = m["samples"]
            step = max(1, len(samples) // max(1, nval))
            picked = samples[::step][:nval]
            validated = 0
            for i, s in enumerate(picked):
                want = [t for t in s["trace"]]
                if threaded:
                    # no native lock-step replay for interpreter threads: re-execute concretely in symx along the recorded schedule
                    rc, lines, _v = run_interpreted(b, s["model"], s["decisions"], work, "d%d" % i)
                    err = ""
                    if rc in (0, 1) and lines == want:
                        validated += 1
                    else:
                        problems.append("%s: concrete re-execution differs from the symbolic trace (rc=%s)\n  symx=%s\n  concrete=%s" % (h["name"], rc, want[:12], lines[:12]))
                        break
                    continue
                rc, lines, err = run_native(b, s["model"], work, "d%d" % i)
                # a sampled path may legitimately contain a failed assertion (a known finding): the traces must
                # still agree line by line, and the native exit code must say the same
                want_rc = 1 if any(t.startswith("F ") for t in want) else 0
                if rc == want_rc and lines == want:
                    validated += 1
                else:
                    problems.append("%s: native trace differs from symbolic trace for a sampled path (rc=%s)\n  model=%s\n  symx  =%s\n  native=%s %s" % (
                        h["name"], rc, json.dumps(s["model"])[:400], want[:12], lines[:12], err[-300:]))
                    break
            hcov["traces_validated_against_impl"] = validated
            # ---- counterexamples: replay before reporting
            confirmed = 0
            for v in m["violations"]:
                if threaded:
                    rc, lines, vids = run_interpreted(b, v["model"], v["decisions"], work, "cex")
                    err = ""
                    repro = v["id"] in vids
                else:
                    rc, lines, err = run_native(b, v["model"], work, "cex")
                    repro = None
                if repro is not None:
                    pass
                elif v["id"] == "crash":
                    repro = rc == 5 or rc < 0 or any(l.startswith("CRASH") for l in lines)
                else:
                    repro = ("F " + v["id"]) in lines
                if not repro:
                    problems.append("%s: counterexample for %s does not reproduce natively (rc=%s): engine/stub error, not a finding.\n  model=%s\n  where=%s\n  native=%s %s" % (
                        h["name"], v["id"], rc, json.dumps(v["model"])[:500], v["where"][:300], lines[-6:], err[-300:]))
                    continue
                kf = next((k for k in known if matches_known(k, pid, h["name"], v["id"], v["model"])), None)
                if kf:
                    line = "KNOWN-FINDING: property=%s %s" % (pid, kf.get("what", v["id"]))
                    if line not in known_lines:
                        known_lines.append(line)
                    continue
                confirmed += 1
                os.makedirs(os.path.join(REPLAYS, pid), exist_ok=True)
                rp = os.path.join(REPLAYS, pid, "%s-%s-%d.json" % (h["name"], re.sub(r"[^A-Za-z0-9_.]", "_", v["id"]), confirmed))
                json.dump(dict(property=pid, harness=h["name"], tier=tier, assert_id=v["id"], kind=v["kind"], where=v["where"], model=v["model"],
                               defs=b.defs, native_trace=lines[-40:], decisions=v.get("decisions", ""),
                               replay_kind="interpreted (symx concrete mode along the recorded schedule)" if threaded else "native",
                               how_to_replay="bin/check %s --replay %s" % (pid, rp)), open(rp, "w"), indent=1)
                violations_out.append((v["id"], rp))
                if confirmed >= 3:
                    break
            hcov["violations_confirmed_natively"] = confirmed
            hcov["violation_candidates"] = sum(m["viol_count"].values())
            # ---- accumulate
            cov["states"] += m["states"]
            cov["transitions"] += m["forks"]
            cov["evaluations"] += m["paths"]
            cov["distinct_nontrivial"] += m["distinct_nontrivial"]
            cov["traces_validated_against_impl"] += validated
            cov["queries"] += m["queries"]
            cov["solver_time_s"] += m["solver_s"]
            cov["inconclusive_paths"] += m["paths_inconclusive"] + sum(v for k, v in m["inconclusive_kinds"].items())
            cov["harnesses"][h["name"]] = hcov
            for s in picked[:3]:
                cov["samples"].append(dict(harness=h["name"], inputs=s["model"], trace=s["trace"][:30], ir_steps=s["steps"]))
            repo_funcs = []
            for name, (file, n, cnt) in m["functions"].items():
                rel = repo_relative(file)
                if rel:
                    repo_funcs.append((rel, name, n, cnt))
            by_file = {}
            for f, name, n, cnt in repo_funcs:
                e = by_file.setdefault(f, dict(functions=0, ir_instructions=0, calls=0))
                e["functions"] += 1
                e["ir_instructions"] += n
                e["calls"] += cnt
            hcov["repo_functions_executed"] = len(repo_funcs)
            hcov["repo_files_executed"] = by_file
            cov["functions_encoded"] += sorted(set("%s: %s" % (f, name) for f, name, n, cnt in repo_funcs if any(f.endswith(a) for a in h.get("anchor_files", []))))[:60]
            cov["stubs"] = sorted(set(cov["stubs"]) | set(m["stubs"]))
            cov["reach"].update(m["reach"])
            assumptions += h.get("assumptions", [])
            if m["q_unknown"]:
                log("  note: %d solver 'unknown' results counted as inconclusive" % m["q_unknown"])
    except HarnessError as e:
        problems.append(str(e))
    except Exception as e:  # noqa
        import traceback
        problems.append("driver exception: " + traceback.format_exc()[-2000:])
    finally:
        shutil.rmtree(work, ignore_errors=True)

    for l in known_lines:
        print(l, flush=True)
    if violations_out:
        status = EXIT_VIOLATION
        for vid, rp in violations_out:
            print("VIOLATION property=%s replay=%s  (%s)" % (pid, rp, vid), flush=True)
    elif problems:
        status = EXIT_HARNESS
    for p in problems:
        log("HARNESS-PROBLEM: " + p)
    cov["rule"] = ("one case = one completed execution path of the harness through the real code (a set of inputs described by its path condition); "
                   "non-trivial = reached at least one declared reach label; distinct = distinct fork-decision sequence")
    cov["exhaustive"] = bool(cov["inconclusive_paths"] == 0 and not problems)
    cov["solver_time_s"] = round(cov["solver_time_s"], 2)
    cov["problems"] = problems
    if not cov["samples"]:
        cov["samples"] = [dict(note="no path completed")]
    ev = dict(property_id=pid, tier=tier, seed=seed, level="model_checking", coverage=cov,
              assumptions=sorted(set(assumptions + [
                  "code under test = /repo working tree compiled by clang++-14 -O1 -std=c++2b against libstdc++ 12 (x86-64)",
                  "libstdc++ out-of-line pieces (rb-tree rebalancing, _Hash_bytes, rehash policy, std exception classes) are the models in /verif/rt; C++ EH ABI, allocator, mutex/condvar are symx builtins",
                  "pointers are concrete; allocation never fails; uninitialised heap reads as zero",
                  "bounded: see coverage.harnesses[*].bounds; nothing is claimed beyond them",
              ])),
              wall_s=round(time.time() - t_start, 2), violations=len(violations_out))
    if status != EXIT_HARNESS or cov["states"] > 0:
        cov["states"] = max(cov["states"], 1)
        cov["transitions"] = max(cov["transitions"], 1)
    tmp = os.path.join(EVID, pid + ".json.tmp")
    json.dump(ev, open(tmp, "w"), indent=1)
    os.replace(tmp, os.path.join(EVID, pid + ".json"))
    log("%s %s: exit %d (%.1fs)" % (pid, tier, status, time.time() - t_start))
    return status


def replay(pid, harnesses, path):
    r = json.load(open(path))
    h = next(x for x in harnesses if x["name"] == r["harness"])
    os.makedirs(os.path.join(CACHE, "work"), exist_ok=True)
    work = tempfile.mkdtemp(prefix="verif_replay_", dir=os.path.join(CACHE, "work"))
    try:
        b = build_harness(h, r.get("tier", "quick"), work)
        rc, lines, err = run_native(b, r["model"], work, "replay")
        print("\n".join(lines))
        print("native exit code %d" % rc)
        bad = ("F " + r["assert_id"]) in lines or (r["assert_id"] == "crash" and (rc == 5 or rc < 0))
        print("REPRODUCED" if bad else "NOT REPRODUCED")
        return 1 if bad else 0
    finally:
        shutil.rmtree(work, ignore_errors=True)

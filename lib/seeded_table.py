#!/usr/bin/env python3
"""Merges first-round logs into seeded/<ID>/<name>/result.json history and prints the DESIGN.md table."""
import json, os, re, sys
V = os.path.dirname(os.path.dirname(os.path.abspath(__file__)))
rows = []
for pid in sorted(os.listdir(os.path.join(V, "seeded"))):
    for name in sorted(os.listdir(os.path.join(V, "seeded", pid))):
        d = os.path.join(V, "seeded", pid, name)
        meta = json.load(open(os.path.join(d, "meta.json"))) if os.path.exists(os.path.join(d, "meta.json")) else {}
        res = json.load(open(os.path.join(d, "result.json")))
        hist = res.get("history", [])
        what = meta.get("what_the_change_does", "")
        if isinstance(what, list): what = " ".join(what)
        needs = meta.get("what_it_needs_to_manifest", "")
        if isinstance(needs, list): needs = " ".join(needs)
        files = meta.get("files_changed", "")
        if isinstance(files, list): files = ", ".join(files)
        rows.append((pid, name, files, what, needs, res, hist))
print("| property | change (file) | needs to manifest | first round | now caught by |")
print("|---|---|---|---|---|")
for pid, name, files, what, needs, res, hist in rows:
    first = hist[0] if hist else res
    ids = sorted(set(re.sub(r".*\((.*)\)$", r"\1", l) for l in res.get("violation_lines", [])))
    fr = "caught" if first.get("caught") else "missed"
    now = ("`" + "`, `".join(ids[:3]) + "`") if res.get("caught") else "**not caught**"
    short = lambda t, n: (t[:n] + "…") if len(t) > n else t
    print("| %s %s | %s (%s) | %s | %s | %s |" % (pid, name, short(what.replace("|", "/").replace("\n", " "), 170), short(str(files).replace("src/hgraph/", ""), 60),
                                                 short(needs.replace("|", "/").replace("\n", " "), 150), fr, now))

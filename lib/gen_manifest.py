#!/usr/bin/env python3
"""Regenerates MANIFEST.json from lib/harnesses.py and lib/manifest_meta.py."""
import json
import os
import sys

sys.path.insert(0, os.path.dirname(os.path.abspath(__file__)))
from harnesses import HARNESSES, META  # noqa
from manifest_meta import NOT_APPLICABLE  # noqa

V = os.path.dirname(os.path.dirname(os.path.abspath(__file__)))
props = [json.loads(l) for l in open(os.path.join(V, "properties.jsonl"))]
checks = []
na = []
TECH = ("bounded symbolic execution of the real C++ (clang-14 LLVM IR of /repo's working tree) by symx; every branch/assertion decided by z3 "
        "over bit-vector path conditions; counterexamples replayed against the native build before being reported")
for p in props:
    pid = p["id"]
    if pid in HARNESSES and pid in META:
        m = META[pid]
        checks.append(dict(
            property_id=pid,
            quick_cmd="cd /verif && bin/check %s --tier quick" % pid,
            thorough_cmd="cd /verif && bin/check %s --tier thorough" % pid,
            evidence_file="evidence/%s.json" % pid,
            replay_cmd_template="cd /verif && bin/check %s --replay {replay}" % pid,
            engine="symx",
            level_claimed=dict(category="model_checking", text=m["level"], design_ref="DESIGN.md section 5 (%s)" % pid),
            level_note=m["note"],
            technique=TECH + "; harnesses: " + ", ".join(h["name"] for h in HARNESSES[pid]),
        ))
    else:
        na.append(dict(property_id=pid, reason=NOT_APPLICABLE.get(pid, "no check registered")))
man = dict(
    version=1,
    setup_cmd="cd /verif && sh engine/build.sh && python3 lib/vbuild.py",
    hooks=dict(guard="HGRAPH_VERIF (unused)", enable="no hooks: checks observe through the repository's own observer/inspection APIs",
               baseline_off_cmd="cd /repo && /venv/bin/python -m pytest -ra -q -p no:cacheprovider --timeout=900 --continue-on-collection-errors",
               source_commits=[], add_only=True),
    engines=[dict(name="symx", path="engine/", serves_properties=[c["property_id"] for c in checks],
                  kind_free_text="bounded symbolic executor for LLVM 14 IR (own implementation on the LLVM C++ API) with z3 5.1 as decision procedure; "
                                 "libstdc++ out-of-line pieces modelled in rt/; native replay of every counterexample")],
    checks=checks,
    notes="All checks rebuild the runtime from /repo's working tree with clang++-14 on every run (content-hash cache in /verif/.cache). "
          "Exit 0 = held on everything explored, 1 = VIOLATION (natively reproduced), 3 = harness/engine problem (inconclusive; never a VIOLATION line).",
    not_applicable=na,
)
json.dump(man, open(os.path.join(V, "MANIFEST.json"), "w"), indent=1)
print("checks:", [c["property_id"] for c in checks], "not_applicable:", [n["property_id"] for n in na])

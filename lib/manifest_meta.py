_WIP = "check under construction in this session (harness not yet landed); will be claimed or given a definitive reason"
NOT_APPLICABLE = {pid: _WIP for pid in ["C%02d" % i for i in range(1, 21)]}

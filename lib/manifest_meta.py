META = {
    "C18": dict(
        level="bounded symbolic model checking of NodeScheduler (node_scheduler.h) against a mirror model: every operation sequence up to the bound, "
              "all requested times symbolic; plus a scripted scheduler node inside a real graph",
        note="bounds and what lies outside them are in evidence coverage.harnesses[*].bounds/outside; unit level drives the header-only scheduler with graph==nullptr",
    ),
}
_WIP = "check under construction in this session (harness not yet landed); will be claimed or given a definitive reason"
NOT_APPLICABLE = {pid: _WIP for pid in ["C%02d" % i for i in range(1, 21)]}

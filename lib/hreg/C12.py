_ANCH = ["src/hgraph/runtime/switch_node.cpp", "include/hgraph/runtime/switch_node.h", "include/hgraph/runtime/nested_bindings.h",
         "include/hgraph/lib/std/operators/impl/higher_order_impl.h", "src/hgraph/lib/std/operators/higher_order_impl.cpp"]
_SRC = "harness/C12_switch.cpp"
_B = ("branches {key 0: two-node sub-graph (a heartbeat node scheduled on start + a separate consumer x+1 of the held input), key 1: running sum (State), key 2: self-scheduling (re-emits one cycle after each tick of x from its own NodeScheduler), "
      "default (enumerated present/absent): key-consuming and stateful key*1000+x+1e6*age}; reload_on_ticked enumerated on/off; NCYC engine cycles, in each the key source "
      "{does not tick, ticks 0, 1, 2, 3, 4} (3 and 4 are both unmatched: a change between them switches from the default branch to a fresh default instance) and x {ticks with a fresh unconstrained symbolic int64, does not tick} (all combinations); checked after every "
      "cycle plus one trailing cycle for pending timers")
_OUT = ("switch_ call-shape normalisation in front of wire_switch (operator front door, keyword arguments); REF-shaped / collection-shaped switch outputs "
        "(output_forwards_to_child_terminal); sink branches; branches of different arity beyond the leading key; branches that throw; dispatch_; "
        "re-pointed (REF) inputs; pause/resume")
reg("C12",
    name="C12_switch", src=_SRC, anchor_files=_ANCH,
    quick=dict(defs=dict(CONFIGS="{0,4},{1,3}", RELOADS=2, DEFAULTS=2), symx=dict(shards=16, **{"max-wall": 900, "query-timeout-ms": 120000})),
    thorough=dict(defs=dict(CONFIGS="{0,5},{1,4}", RELOADS=2, DEFAULTS=2), symx=dict(shards=16, **{"max-wall": 3000, "shard-depth": 8, "query-timeout-ms": 120000})),
    reach=["end", "switched", "three_switches", "returned_to_earlier_key", "switch_and_input_tick_same_cycle", "switched_away_with_pending_timer",
           "reload_on_same_key", "same_key_tick_without_reload", "default_branch_selected", "default_to_default_key_change", "branch_due_at_activation_and_held_input_consumer", "branch_timer_fired", "selected_before_input_valid",
           "unmatched_key_throws"],
    bounds="configurations {key type, NCYC}: quick {int,4},{str,3}; thorough {int,5},{str,4}; " + _B + "; with int keys the unmatched keys 3, 4 are only scripted "
           "when a default branch exists; with string keys 'k0'..'k4' they are also scripted without default branch and must make run() throw (and only then)",
    outside=_OUT,
    assumptions=["string keys are used for the unmatched-key error because the int key's error message is rendered through std::ostringstream, which the "
                 "symbolic engine cannot execute (external libstdc++ object)"],
    )

_CB = ("switch_ with COLLECTION-valued branch outputs written through the forwarding terminal into the one output owned by the switch node; kind enumerated "
       "{TSS<int>, TSD<int,TS<int>>}; reload_on_ticked enumerated on/off; default branch present; branches {key 0: applies the held operation at every evaluation (also at "
       "selection: sampled inputs), key 1: publishes nothing in its first evaluation (State) and applies the operation from the second on, key 2: applies the "
       "operation to elements shifted by one, default (keys 3 and 4 both unmatched): key-consuming, adds element key-2 and applies the operation, TSD values carry the "
       "instance age}; operations {add 0, add 1, remove 0, add 0+1, remove 0 + add 2} on concrete element keys; per cycle the key source {does not tick, ticks one of KEYS} "
       "x the command/payload sources {do not tick, tick one of the first NOPS operations with a fresh unconstrained symbolic int64 payload (TSD element values)} (all "
       "combinations); checked after every cycle plus one trailing cycle by a clock-driven checker (value, added/removed/modified elements, ticks, per-branch evaluation counts, fresh State) and by an "
       "active consumer of the switch output (evaluated on every tick, same value and delta)")
reg("C12",
    name="C12_switch_coll", src="harness/C12_switch_coll.cpp",
    anchor_files=_ANCH + ["src/hgraph/types/time_series/ts_data/ops.cpp", "src/hgraph/types/time_series/ts_output/base_view.cpp"],
    quick=dict(defs=dict(CONFIGS="{0,3},{1,3}", RELOADS=2, KEYS="0,1,3,4", NOPS=3), symx=dict(shards=16, **{"max-wall": 900, "query-timeout-ms": 120000})),
    thorough=dict(defs=dict(CONFIGS="{0,3},{1,3}", RELOADS=2, KEYS="0,1,2,3,4", NOPS=5), symx=dict(shards=16, **{"max-wall": 3000, "shard-depth": 8, "query-timeout-ms": 120000})),
    reach=["end"] + [k + ":" + l for k in ("tss", "tsd") for l in (
        "switched", "two_switches", "reload_same_key_after_published_elements", "default_to_default_after_published_elements",
        "flip_between_branches_after_published_elements", "new_instance_silent_in_selection_cycle_after_published_elements",
        "late_branch_first_evaluation_after_published_elements", "late_branch_published_in_later_cycle", "retired_element_not_republished",
        "retired_element_republished_in_selection_cycle", "instance_removed_own_element", "new_instance_removes_retired_element_in_selection_cycle",
        "switch_with_nothing_published", "switch_and_input_tick_same_cycle", "selected_before_input_valid", "returned_to_earlier_key",
        "same_key_tick_without_reload")],
    bounds="3 cycles (+1 trailing); quick: KEYS {0,1,3,4}, operations {add 0, add 1, remove 0}; thorough: KEYS {0,1,2,3,4}, all 5 operations; " + _CB,
    outside=("REF-shaped switch outputs and branches whose terminal is preserved (output_forwards_to_child_terminal: forwarding tree), pass-through branches (branch output = an outer "
             "input), TSL / TSB / nested collection outputs, consumers bound to a single TSD element, scalar outputs (C12_switch; a scalar branch that stays silent after a switch away from an "
             "instance that had written is not scripted there either), unmatched key without default (C12_switch), symbolic cycle times, more than 3 cycles (A/B slot reuse after 3 switches is in C12_switch); "
             "an operation without net effect (remove of an absent element) may or may not tick the output - not demanded either way"),
    assumptions=["set / dictionary element keys are concrete (enumerated operations): hashed containers cannot take symbolic keys; the TSD element payloads are symbolic",
                 "an element of the retired instance that the fresh instance publishes again in the selection cycle may be reported as (nothing | removed+added | added) - only 'removed only' is rejected"],
    )

_WB = ("switch_ (int keys 0, 1; inputs x and y) whose branches are both SELF-SCHEDULING: the first evaluation of an instance arms a wake-up p later, every wake-up re-arms p later "
       "(MAXW wake-ups per chain), a tick of x while a wake-up is pending only republishes; y is consumed by no branch; reload_on_ticked enumerated on/off; initial cycle {key 0 + x}, then NEV "
       "events, each enumerated from {key 0 ticks, key 1 ticks, x ticks, y ticks}; symbolic: period p in [1,PMAX], the gap before every event in [1,DMAX] (engine times, so events fall before / on / "
       "strictly between / after the branch's wake-ups), every x value (int64); oracle: the (time, value) stream of the switch output and the (time, branch) stream of branch evaluations equal the "
       "selected instance run alone")
reg("C12",
    name="C12_switch_wake", src="harness/C12_switch_wake.cpp", anchor_files=_ANCH + ["include/hgraph/runtime/node_scheduler.h"],
    quick=dict(defs=dict(NEV=3, PMAX=3, DMAX=2, MAXW=2, RELOADS=2), symx=dict(shards=16, **{"max-wall": 900, "query-timeout-ms": 120000})),
    thorough=dict(defs=dict(NEV=4, PMAX=4, DMAX=3, MAXW=3, RELOADS=2), symx=dict(shards=16, **{"max-wall": 3000, "shard-depth": 8, "query-timeout-ms": 120000})),
    reach=["end", "same_key_tick_between_wakeups", "unconsumed_input_tick_between_wakeups", "wakeup_fired_after_idle_switch_cycle",
           "flip_then_same_key_retick_between_wakeups", "consumed_input_tick_between_wakeups", "switched_away_with_pending_wakeup",
           "reload_with_pending_wakeup", "wakeup_and_tick_same_cycle", "three_selections"],
    bounds="quick NEV=3, p<=3, gaps<=2, 2 wake-ups per chain; thorough NEV=4, p<=4, gaps<=3, 3 wake-ups; " + _WB,
    outside=("branches with several pending timers / tagged schedules, a branch consuming y, more than two keys, default branch and unmatched keys (C12_switch), collection outputs (C12_switch_coll), "
             "real-time executor, wall-clock alarms"),
    assumptions=[],
    )

META = dict(
    level="bounded symbolic model checking of switch_ (wire_switch -> compile_switch_branch -> switch_node: branch selection, A/B slot reuse, sampled "
          "input binding on selection, teardown of the previous instance, reload_on_ticked, default branch, unmatched-key error) against a model with a fresh "
          "instance per selection, all input values symbolic: output validity / value / ticks and the per-branch evaluation counts of every cycle are "
          "proven equal to the model's for every enumerated key and input history",
    note="bounds in evidence coverage.harnesses[*].bounds; see notes/C12.md",
)

_ANCH = ["src/hgraph/runtime/switch_node.cpp", "include/hgraph/runtime/switch_node.h", "include/hgraph/runtime/nested_bindings.h",
         "include/hgraph/lib/std/operators/impl/higher_order_impl.h", "src/hgraph/lib/std/operators/higher_order_impl.cpp"]
_SRC = "harness/C12_switch.cpp"
_B = ("branches {key 0: two-node sub-graph (a heartbeat node scheduled on start + a separate consumer x+1 of the held input), key 1: running sum (State), key 2: self-scheduling (re-emits one cycle after each tick of x from its own NodeScheduler), "
      "default (enumerated present/absent): key-consuming and stateful key*1000+x+1e6*age}; reload_on_ticked enumerated on/off; NCYC engine cycles, in each the key source "
      "{does not tick, ticks 0, 1, 2, 3, 4} (3 and 4 are both unmatched: a change between them switches from the default branch to a fresh default instance) and x {ticks with a fresh unconstrained symbolic int64, does not tick} (all combinations); checked after every "
      "cycle plus one trailing cycle for pending timers")
_OUT = ("switch_ call-shape normalisation in front of wire_switch (operator front door, keyword arguments); REF-shaped / collection-shaped switch outputs "
        "(output_forwards_to_child_terminal); sink branches; branches of different arity beyond the leading key; branches that throw; dispatch_; "
        "re-pointed (REF) inputs; pause/resume")
reg("C12",
    name="C12_switch", src=_SRC, anchor_files=_ANCH,
    quick=dict(defs=dict(CONFIGS="{0,4},{1,3}", RELOADS=2, DEFAULTS=2), symx=dict(shards=16, **{"max-wall": 900, "query-timeout-ms": 120000})),
    thorough=dict(defs=dict(CONFIGS="{0,5},{1,4}", RELOADS=2, DEFAULTS=2), symx=dict(shards=16, **{"max-wall": 3000, "shard-depth": 8, "query-timeout-ms": 120000})),
    reach=["end", "switched", "three_switches", "returned_to_earlier_key", "switch_and_input_tick_same_cycle", "switched_away_with_pending_timer",
           "reload_on_same_key", "same_key_tick_without_reload", "default_branch_selected", "default_to_default_key_change", "branch_due_at_activation_and_held_input_consumer", "branch_timer_fired", "selected_before_input_valid",
           "unmatched_key_throws"],
    bounds="configurations {key type, NCYC}: quick {int,4},{str,3}; thorough {int,5},{str,4}; " + _B + "; with int keys the unmatched keys 3, 4 are only scripted "
           "when a default branch exists; with string keys 'k0'..'k4' they are also scripted without default branch and must make run() throw (and only then)",
    outside=_OUT,
    assumptions=["string keys are used for the unmatched-key error because the int key's error message is rendered through std::ostringstream, which the "
                 "symbolic engine cannot execute (external libstdc++ object)"],
    )

META = dict(
    level="bounded symbolic model checking of switch_ (wire_switch -> compile_switch_branch -> switch_node: branch selection, A/B slot reuse, sampled "
          "input binding on selection, teardown of the previous instance, reload_on_ticked, default branch, unmatched-key error) against a model with a fresh "
          "instance per selection, all input values symbolic: output validity / value / ticks and the per-branch evaluation counts of every cycle are "
          "proven equal to the model's for every enumerated key and input history",
    note="bounds in evidence coverage.harnesses[*].bounds; see notes/C12.md",
)

reg("C09",
    name="C09_nesting", src="harness/C09_nesting.cpp",
    anchor_files=["src/hgraph/runtime/nested_graph_node.cpp", "include/hgraph/runtime/nested_graph_node.h", "include/hgraph/runtime/nested_bindings.h",
                  "include/hgraph/runtime/nested_graph_storage.h", "src/hgraph/runtime/graph.cpp", "include/hgraph/types/subgraph_wiring.h",
                  "src/hgraph/types/graph_wiring.cpp"],
    quick=dict(defs=dict(NX=2, NT=2, DMAX=3, WMAX=5, DEPTH=2, PMAX=2), symx=dict(shards=16, **{"max-wall": 900, "shard-depth": 8})),
    thorough=dict(defs=dict(NX=3, NT=3, DMAX=3, WMAX=8, DEPTH=3), symx=dict(shards=16, **{"max-wall": 3000, "shard-depth": 8})),
    reach=["end", "two_output_ticks", "child_timer_fired_while_parent_idle", "child_timer_consecutive_steps", "pass_through_ticked",
           "captured_port_ticked", "unchecked_consumer", "ref_boundary_second_tick", "outer_tick_while_child_wakeup_pending", "parent_has_unrelated_earlier_wakeup", "deepest_mode_evaluated_children"],
    bounds="9 enumerated sub-graph definitions (stateless map; internal self-scheduling timer added to the input; stateful running sum; pass-through of the "
           "input; captured outer port added to the input; no input, internal timer only; stateful node with an Unchecked input; REF<TS<Int>> boundary fed by the plain input with a de-referencing consumer inside; sampler reading the input passively and waking itself by symbolic periods), each wired inline and as a "
           "nested child graph at depth 1..DEPTH, every mode built and run separately on the same script in one path; input script NX emissions (first offset "
           "symbolic in [0,DMAX] us, gaps in [1,DMAX] us, values in [-1e6,1e6]); captured port: an independent script of the same shape; internal timer: "
           "evaluated at start, then NT wake-ups by symbolic deltas in [1,DMAX] us; for the internal-timer definitions an unrelated parent-level self-scheduling ticker (symbolic period in [1,PMAX] us, own recorder) in every mode; start symbolic in [0,1000] us after MIN_ST; window symbolic in [1,WMAX] us",
    outside="nested_<G>'s own template body (mirrored by hk/hk_c09.h, not executed: clang 14 cannot compile it); Scalar parameters of sub-graphs; structural "
            "(TSB/TSL) boundary inputs and outputs; REF boundaries whose reference re-points (the REF definition binds one fixed target); REF-typed outputs; sub-graphs with services or error outputs; "
            "map_/switch_/reduce/mesh child graphs (C10-C12); depth beyond DEPTH; more than NX input ticks / NT internal wake-ups",
    assumptions=["hk/hk_c09.h nested_call mirrors subgraph_wiring.h build_subgraph_call + nested_<G> step by step (adapt_source_for_input, boundary_shape, "
                 "child_wiring, G::compose, finish_subgraph, captured inputs appended, un_named_tsb input schema, add_node factory overload with "
                 "single_nested_graph_node + input_endpoint_for_sources); a divergence between the mirror and nested_<G> itself is not detected"],
    )

reg("C09",
    name="C09_delayed", src="harness/C09_delayed.cpp",
    anchor_files=["src/hgraph/runtime/nested_graph_node.cpp", "src/hgraph/runtime/try_except_node.cpp", "include/hgraph/runtime/nested_graph_node.h",
                  "src/hgraph/runtime/graph.cpp", "include/hgraph/runtime/node_scheduler.h", "src/hgraph/runtime/node.cpp",
                  "include/hgraph/types/subgraph_wiring.h", "src/hgraph/types/graph_wiring.cpp",
                  "include/hgraph/lib/std/operators/impl/higher_order_impl.h"],
    quick=dict(defs=dict(NX=2, NT=2, DMAX=3, WMAX=5, DEPTH=2, PMAX=2, WITH_TE=1), symx=dict(shards=16, **{"max-wall": 900, "shard-depth": 5})),
    thorough=dict(defs=dict(NX=3, NT=3, DMAX=3, WMAX=8, DEPTH=3, PMAX=3, WITH_TE=1), symx=dict(shards=16, **{"max-wall": 3000, "shard-depth": 8})),
    reach=["end", "start_wakeup_woke_idle_parent", "start_wakeup_woke_idle_parent_deepest_mode", "start_wakeup_woke_idle_parent_try_except",
           "start_wakeup_at_min_td", "start_wakeup_on_or_after_end_of_window", "later_chain_wakeup_after_start_wakeup",
           "outer_first_tick_before_start_wakeup", "outer_first_tick_exactly_at_start_wakeup", "outer_first_tick_after_start_wakeup",
           "outer_first_tick_in_start_cycle", "start_cycle_source_then_delayed_source", "parent_busy_child_idle_in_start_cycle",
           "middle_graph_busy_innermost_idle_in_start_cycle", "second_start_request_earlier_than_first", "second_start_request_later_than_first",
           "delayed_consumer_timer_before_input_valid", "delayed_consumer_input_then_timer"],
    bounds="sub-graphs whose earliest internal wake-up is requested from a START HOOK (scheduler.schedule(delta), delta symbolic in [1,DMAX] us, 1 = MIN_TD) by a "
           "node WITHOUT schedule_on_start, followed by a chain of NT-1 re-scheduling deltas in [1,DMAX]; 5 enumerated definitions: 0 delayed source only (no "
           "input, parent idle); 1 delayed source merged with a boundary input (NX emissions, first offset symbolic in [0,DMAX] us so the outer input first ticks "
           "in the start cycle / before / exactly at / after the start-requested wake-up, gaps in [1,DMAX], values in [-1e6,1e6]); 2 start-cycle source "
           "(schedule_on_start, runs once) next to the delayed source in the same child; 3 the delayed node itself consumes the boundary input (active, "
           "validity-checked); 4 two-level definition merge(Once, D) with D = map(delayed) a sub-graph call inside it (middle graph busy at start, innermost "
           "idle); for the no-input definitions 0, 2, 4 three variants: plain / an unrelated root-level ticker (period symbolic in [1,PMAX]) / a second, tagged "
           "start request (symbolic delta, earlier or later than the first); every definition run inlined, nested at depth 1..DEPTH (hk_c09.h mirror of "
           "nested_<G> over the real single_nested_graph_node) and wrapped by the real wire_try_except -> try_except_node, each mode built and run on its own "
           "on the same script in one path; start symbolic in [0,1000] us after MIN_ST; window symbolic in [1,WMAX] us (so the start-requested wake-up falls "
           "inside, on or after the end of the run)",
    outside="start hooks that un_schedule or re-tag; wall-clock alarms (C17); start hooks of nodes inside map_/switch_/reduce/mesh children (C10-C12); try_except "
            "children that throw (C15); try_except nested inside a nested graph; ticker variant for the definitions with a boundary input; more than two start "
            "requests; depth beyond DEPTH; everything listed as outside for C09_nesting",
    assumptions=["hk/hk_c09.h nested_call mirrors nested_<G> (see C09_nesting); the try_except mode goes through the repository's own wire_try_except with a "
                 "hand-made WiredFn (hk_ho.h FnW), so only the operator front door (argument normalisation) is not executed"],
    )

META = dict(
    level="bounded symbolic model checking of nested-graph execution (nested_graph_node.cpp, try_except_node.cpp start path, nested_bindings.h, graph.cpp nested scheduling push/pull and start-time hand-over, "
          "graph_wiring.cpp finish_subgraph) as a relational property: the same definition inlined vs nested at depth 1..DEPTH on the same symbolic script",
    note="known finding (definition 6): a consumer with an empty validity gate on a boundary input gets one extra evaluation at start when nested "
         "(schedule_sampled_input_consumers) - listed in known_findings.jsonl; bounds in evidence coverage.harnesses[*].bounds",
)

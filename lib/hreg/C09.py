reg("C09",
    name="C09_nesting", src="harness/C09_nesting.cpp",
    anchor_files=["src/hgraph/runtime/nested_graph_node.cpp", "include/hgraph/runtime/nested_graph_node.h", "include/hgraph/runtime/nested_bindings.h",
                  "include/hgraph/runtime/nested_graph_storage.h", "src/hgraph/runtime/graph.cpp", "include/hgraph/types/subgraph_wiring.h",
                  "src/hgraph/types/graph_wiring.cpp"],
    quick=dict(defs=dict(NX=2, NT=2, DMAX=3, WMAX=5, DEPTH=2, PMAX=2), symx=dict(shards=16, **{"max-wall": 900, "shard-depth": 8})),
    thorough=dict(defs=dict(NX=3, NT=3, DMAX=3, WMAX=8, DEPTH=3), symx=dict(shards=16, **{"max-wall": 3000, "shard-depth": 8})),
    reach=["end", "two_output_ticks", "child_timer_fired_while_parent_idle", "child_timer_consecutive_steps", "pass_through_ticked",
           "captured_port_ticked", "unchecked_consumer", "ref_boundary_second_tick", "outer_tick_while_child_wakeup_pending", "parent_has_unrelated_earlier_wakeup", "deepest_mode_evaluated_children"],
    bounds="9 enumerated sub-graph definitions (stateless map; internal self-scheduling timer added to the input; stateful running sum; pass-through of the "
           "input; captured outer port added to the input; no input, internal timer only; stateful node with an Unchecked input; REF<TS<Int>> boundary fed by the plain input with a de-referencing consumer inside; sampler reading the input passively and waking itself by symbolic periods), each wired inline and as a "
           "nested child graph at depth 1..DEPTH, every mode built and run separately on the same script in one path; input script NX emissions (first offset "
           "symbolic in [0,DMAX] us, gaps in [1,DMAX] us, values in [-1e6,1e6]); captured port: an independent script of the same shape; internal timer: "
           "evaluated at start, then NT wake-ups by symbolic deltas in [1,DMAX] us; for the internal-timer definitions an unrelated parent-level self-scheduling ticker (symbolic period in [1,PMAX] us, own recorder) in every mode; start symbolic in [0,1000] us after MIN_ST; window symbolic in [1,WMAX] us",
    outside="nested_<G>'s own template body (mirrored by hk/hk_c09.h, not executed: clang 14 cannot compile it); Scalar parameters of sub-graphs; structural "
            "(TSB/TSL) boundary inputs and outputs; REF boundaries whose reference re-points (the REF definition binds one fixed target); REF-typed outputs; sub-graphs with services or error outputs; "
            "map_/switch_/reduce/mesh child graphs (C10-C12); depth beyond DEPTH; more than NX input ticks / NT internal wake-ups",
    assumptions=["hk/hk_c09.h nested_call mirrors subgraph_wiring.h build_subgraph_call + nested_<G> step by step (adapt_source_for_input, boundary_shape, "
                 "child_wiring, G::compose, finish_subgraph, captured inputs appended, un_named_tsb input schema, add_node factory overload with "
                 "single_nested_graph_node + input_endpoint_for_sources); a divergence between the mirror and nested_<G> itself is not detected"],
    )

META = dict(
    level="bounded symbolic model checking of nested-graph execution (nested_graph_node.cpp, nested_bindings.h, graph.cpp nested scheduling push/pull, "
          "graph_wiring.cpp finish_subgraph) as a relational property: the same definition inlined vs nested at depth 1..DEPTH on the same symbolic script",
    note="known finding (definition 6): a consumer with an empty validity gate on a boundary input gets one extra evaluation at start when nested "
         "(schedule_sampled_input_consumers) - listed in known_findings.jsonl; bounds in evidence coverage.harnesses[*].bounds",
)

_ANCHORS = ["src/hgraph/types/time_series/ts_delta.cpp", "include/hgraph/types/time_series/ts_delta.h",
            "src/hgraph/types/metadata/ts_data_slot_ops.cpp", "src/hgraph/types/metadata/ts_data_atomic_ops.cpp",
            "src/hgraph/types/metadata/ts_data_fixed_structured_ops.cpp", "src/hgraph/types/metadata/ts_data_dynamic_list_ops.cpp",
            "src/hgraph/types/metadata/ts_data_window_ops.cpp"]
_SHAPES = ("shapes {TS<int>, TSS<int>, TSD<int,TS<int>>, TSL<TS<int>,2>, TSB{a:TS<int>,s:TSS<int>}, TSD<int,TSS<int>>, TSB{d:TSD<int,TS<int>>,x:TS<int>}, "
           "TSW<int,2,1>, dynamic TSL<TS<int>>, TSW<int,3,2> (invalid below two elements)} (enumerated)")
_OUTSIDE = ("more cycles / primitives per cycle / keys; element types other than int; SIGNAL and REF shapes; invalidation of a valid output; TSW clear ticks "
            "(documented as not representable); TSD keys created without ticking their element; deeper nesting than 2; whole-value writes (copy_value_from) on collections; "
            "table / Arrow / data-frame recorders and durable stores")

reg("C20",
    name="C20_delta", src="harness/C20_delta.cpp",
    anchor_files=_ANCHORS,
    quick=dict(defs=dict(NCYC=3, NPRIM=2, NPRIM5=1, NKEYS=2), symx=dict(shards=16, **{"max-wall": 2400, "shard-depth": 3})),
    thorough=dict(defs=dict(NCYC=4, NPRIM=2, NPRIM5=1, NKEYS=2), symx=dict(shards=16, **{"max-wall": 3000, "shard-depth": 3})),
    reach=["end", "two_ticks", "gap_then_tick", "key_removed", "key_removed_and_readded_same_cycle", "key_added_and_removed_same_cycle",
           "empty_structural_tick", "child_only_tick", "class_empty_delta_on_valid_collection", "class_unticked_collection_field",
           "window_push_below_min_period_recorded"],
    bounds="unit level, no graph: two real TSOutputs A (original) and B (copy) of one schema from " + _SHAPES + ", each observed through a bound TSInput; NCYC cycles at "
           "consecutive engine times; per cycle A is mutated through the producer API: TS leaves / window pushes tick or not with symbolic payloads in [-1000,1000]; "
           "root-level TSS / TSD get up to NPRIM primitives from {add k, remove k, touch} / {upsert k (element ticks), erase k, touch} over keys {1..NKEYS} (no-op adds / "
           "removes, remove+re-add and add+remove within a cycle included), nested collections (TSB field, TSD element; root of TSD<int,TSS>: NPRIM5) one primitive; "
           "whenever A ticked: d = capture_delta(inA); if delta_is_observable: apply_delta(B, d) - the per-cycle work of dense_record_impl + replay_impl",
    outside=_OUTSIDE,
    assumptions=["evaluation times are supplied by the harness in strictly increasing order as the evaluation engine does; endpoints are stand-alone (no owning node)"],
    )
reg("C20",
    name="C20_delta_long", src="harness/C20_delta.cpp", tiers=("thorough",),
    anchor_files=_ANCHORS,
    thorough=dict(defs=dict(NCYC=5, NPRIM=1, NPRIM5=1, NKEYS=2), symx=dict(shards=16, **{"max-wall": 3000, "shard-depth": 3})),
    reach=["end", "two_ticks", "gap_then_tick", "key_removed", "empty_structural_tick", "child_only_tick"],
    bounds="as C20_delta with 5 cycles and one key-set primitive per collection per cycle (longer histories: removal then gap then re-add, several gaps)",
    outside=_OUTSIDE,
    )

reg("C20",
    name="C20_delta_keys3", src="harness/C20_delta.cpp", tiers=("thorough",),
    anchor_files=_ANCHORS,
    thorough=dict(defs=dict(NCYC=3, NPRIM=2, NPRIM5=1, NKEYS=3), symx=dict(shards=16, **{"max-wall": 3000, "shard-depth": 3})),
    reach=["end", "two_ticks", "gap_then_tick", "key_removed", "key_removed_and_readded_same_cycle", "key_added_and_removed_same_cycle", "empty_structural_tick", "child_only_tick"],
    bounds="as C20_delta with 3 cycles and the key universe {1,2,3} (57 primitive pairs per cycle for the root-level TSS / TSD)",
    outside=_OUTSIDE,
    )

_GRAPH_ANCHORS = _ANCHORS + ["include/hgraph/lib/std/operators/impl/record_replay_memory_impl.h", "include/hgraph/lib/testing/record_replay.h",
                            "include/hgraph/lib/testing/record_replay_buffer.h", "src/hgraph/types/record_replay.cpp", "include/hgraph/types/record_replay.h"]
_GRAPH_BOUNDS = ("real graph replay_impl<S>('in') -> dense_record_impl('out') (node structs from record_replay_memory_impl.h, included directly) run in simulation from MIN_ST, one "
                 "cycle per MIN_TD, for NCYC+2 cycles; the seeded buffer 'in' is the recording of a history produced as in C20_delta (same shapes, drivers and bounds NCYC / NPRIM / "
                 "NPRIM5 / NKEYS, symbolic payloads): in[c] = capture_delta if the tick is observable, a hole otherwise; read back with testing::get_recorded_deltas")
reg("C20",
    name="C20_graph", src="harness/C20_graph.cpp",
    anchor_files=_GRAPH_ANCHORS,
    quick=dict(defs=dict(NCYC=3, NPRIM=1, NPRIM5=1, NKEYS=2), symx=dict(shards=16, **{"max-wall": 2400, "shard-depth": 3})),
    thorough=dict(defs=dict(NCYC=3, NPRIM=2, NPRIM5=1, NKEYS=2), symx=dict(shards=16, **{"max-wall": 3000, "shard-depth": 3})),
    reach=["end", "two_ticks", "gap_then_tick", "key_removed", "child_only_tick", "empty_structural_tick", "class_empty_delta_on_valid_collection",
           "window_push_below_min_period_recorded"],
    bounds=_GRAPH_BOUNDS,
    outside=_OUTSIDE + "; sparse (absolute-time) recording and replay with a recordable_id; compare; the record / replay operator front door (wire<stdlib::record>)",
    assumptions=["replay_impl / dense_record_impl are wired directly as static nodes (wire<stdlib::replay_impl, S>), not through the operator registry; "
                 "record_replay_memory_impl.cpp (registration only) is not linked"],
    )
reg("C20",
    name="C20_graph_long", src="harness/C20_graph.cpp", tiers=("thorough",),
    anchor_files=_GRAPH_ANCHORS,
    thorough=dict(defs=dict(NCYC=4, NPRIM=1, NPRIM5=1, NKEYS=2), symx=dict(shards=16, **{"max-wall": 3000, "shard-depth": 3})),
    reach=["end", "two_ticks", "gap_then_tick", "key_removed", "child_only_tick"],
    bounds="as C20_graph with 4 cycles and one key-set primitive per collection per cycle",
    outside=_OUTSIDE,
    )

META = dict(
    level="bounded symbolic model checking of the type-erased delta round trip (ts_delta.cpp capture_delta / delta_is_observable / apply_delta and the per-kind TSDataOps "
          "capture/apply/has-effect implementations) on stand-alone real endpoints: every tick history up to the bound for nine schema shapes, all payloads symbolic",
    note="C20_graph runs the real replay_impl -> dense_record_impl node structs in a real graph (record o replay = id on buffers); "
         "two input classes that contradict the literal statement are listed in known_findings.jsonl under their own assertion ids",
)

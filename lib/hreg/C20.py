_ANCHORS = ["src/hgraph/types/time_series/ts_delta.cpp", "include/hgraph/types/time_series/ts_delta.h",
            "src/hgraph/types/metadata/ts_data_slot_ops.cpp", "src/hgraph/types/metadata/ts_data_atomic_ops.cpp",
            "src/hgraph/types/metadata/ts_data_fixed_structured_ops.cpp", "src/hgraph/types/metadata/ts_data_dynamic_list_ops.cpp",
            "src/hgraph/types/metadata/ts_data_window_ops.cpp"]
_SHAPES = ("shapes {TS<int>, TSS<int>, TSD<int,TS<int>>, TSL<TS<int>,2>, TSB{a:TS<int>,s:TSS<int>}, TSD<int,TSS<int>>, TSB{d:TSD<int,TS<int>>,x:TS<int>}, "
           "TSW<int,2,1>, dynamic TSL<TS<int>>, TSW<int,3,2> (invalid below two elements)} (enumerated)")
_OUTSIDE = ("more cycles / primitives per cycle / keys; element types other than int; SIGNAL and REF shapes; invalidation of a valid output; TSW clear ticks "
            "(documented as not representable); TSD keys created without ticking their element; deeper nesting than 2; whole-value writes (copy_value_from) on collections; "
            "table / Arrow / data-frame recorders and durable stores")

reg("C20",
    name="C20_delta", src="harness/C20_delta.cpp",
    anchor_files=_ANCHORS,
    quick=dict(defs=dict(NCYC=3, NPRIM=2, NPRIM5=1, NKEYS=2), symx=dict(shards=16, **{"max-wall": 2400, "shard-depth": 3})),
    thorough=dict(defs=dict(NCYC=4, NPRIM=2, NPRIM5=1, NKEYS=2), symx=dict(shards=16, **{"max-wall": 3000, "shard-depth": 3})),
    reach=["end", "two_ticks", "gap_then_tick", "key_removed", "key_removed_and_readded_same_cycle", "key_added_and_removed_same_cycle",
           "empty_structural_tick", "child_only_tick", "class_empty_delta_on_valid_collection", "class_unticked_collection_field",
           "window_push_below_min_period_recorded"],
    bounds="unit level, no graph: two real TSOutputs A (original) and B (copy) of one schema from " + _SHAPES + ", each observed through a bound TSInput; NCYC cycles at "
           "consecutive engine times; per cycle A is mutated through the producer API: TS leaves / window pushes tick or not with symbolic payloads in [-1000,1000]; "
           "root-level TSS / TSD get up to NPRIM primitives from {add k, remove k, touch} / {upsert k (element ticks), erase k, touch} over keys {1..NKEYS} (no-op adds / "
           "removes, remove+re-add and add+remove within a cycle included), nested collections (TSB field, TSD element; root of TSD<int,TSS>: NPRIM5) one primitive; "
           "whenever A ticked: d = capture_delta(inA); if delta_is_observable: apply_delta(B, d) - the per-cycle work of dense_record_impl + replay_impl",
    outside=_OUTSIDE,
    assumptions=["evaluation times are supplied by the harness in strictly increasing order as the evaluation engine does; endpoints are stand-alone (no owning node)"],
    )
reg("C20",
    name="C20_delta_long", src="harness/C20_delta.cpp", tiers=("thorough",),
    anchor_files=_ANCHORS,
    thorough=dict(defs=dict(NCYC=5, NPRIM=1, NPRIM5=1, NKEYS=2), symx=dict(shards=16, **{"max-wall": 3000, "shard-depth": 3})),
    reach=["end", "two_ticks", "gap_then_tick", "key_removed", "empty_structural_tick", "child_only_tick"],
    bounds="as C20_delta with 5 cycles and one key-set primitive per collection per cycle (longer histories: removal then gap then re-add, several gaps)",
    outside=_OUTSIDE,
    )

reg("C20",
    name="C20_delta_keys3", src="harness/C20_delta.cpp", tiers=("thorough",),
    anchor_files=_ANCHORS,
    thorough=dict(defs=dict(NCYC=3, NPRIM=2, NPRIM5=1, NKEYS=3), symx=dict(shards=16, **{"max-wall": 3000, "shard-depth": 3})),
    reach=["end", "two_ticks", "gap_then_tick", "key_removed", "key_removed_and_readded_same_cycle", "key_added_and_removed_same_cycle", "empty_structural_tick", "child_only_tick"],
    bounds="as C20_delta with 3 cycles and the key universe {1,2,3} (57 primitive pairs per cycle for the root-level TSS / TSD)",
    outside=_OUTSIDE,
    )

_GRAPH_ANCHORS = _ANCHORS + ["include/hgraph/lib/std/operators/impl/record_replay_memory_impl.h", "include/hgraph/lib/testing/record_replay.h",
                            "include/hgraph/lib/testing/record_replay_buffer.h", "src/hgraph/types/record_replay.cpp", "include/hgraph/types/record_replay.h"]
_GRAPH_BOUNDS = ("real graph replay_impl<S>('in') -> dense_record_impl('out') (node structs from record_replay_memory_impl.h, included directly) run in simulation from MIN_ST, one "
                 "cycle per MIN_TD, for NCYC+2 cycles; the seeded buffer 'in' is the recording of a history produced as in C20_delta (same shapes, drivers and bounds NCYC / NPRIM / "
                 "NPRIM5 / NKEYS, symbolic payloads): in[c] = capture_delta if the tick is observable, a hole otherwise; read back with testing::get_recorded_deltas")
reg("C20",
    name="C20_graph", src="harness/C20_graph.cpp",
    anchor_files=_GRAPH_ANCHORS,
    quick=dict(defs=dict(NCYC=3, NPRIM=1, NPRIM5=1, NKEYS=2), symx=dict(shards=16, **{"max-wall": 2400, "shard-depth": 3})),
    thorough=dict(defs=dict(NCYC=3, NPRIM=2, NPRIM5=1, NKEYS=2), symx=dict(shards=16, **{"max-wall": 3000, "shard-depth": 3})),
    reach=["end", "two_ticks", "gap_then_tick", "key_removed", "child_only_tick", "empty_structural_tick", "class_empty_delta_on_valid_collection",
           "window_push_below_min_period_recorded"],
    bounds=_GRAPH_BOUNDS,
    outside=_OUTSIDE + "; sparse (absolute-time) recording and replay with a recordable_id (see C20_sparse); compare; the record / replay operator front door (wire<stdlib::record>)",
    assumptions=["replay_impl / dense_record_impl are wired directly as static nodes (wire<stdlib::replay_impl, S>), not through the operator registry; "
                 "record_replay_memory_impl.cpp (registration only) is not linked"],
    )
reg("C20",
    name="C20_graph_long", src="harness/C20_graph.cpp", tiers=("thorough",),
    anchor_files=_GRAPH_ANCHORS,
    thorough=dict(defs=dict(NCYC=4, NPRIM=1, NPRIM5=1, NKEYS=2), symx=dict(shards=16, **{"max-wall": 3000, "shard-depth": 3})),
    reach=["end", "two_ticks", "gap_then_tick", "key_removed", "child_only_tick"],
    bounds="as C20_graph with 4 cycles and one key-set primitive per collection per cycle",
    outside=_OUTSIDE,
    )

_SPARSE_ANCHORS = _GRAPH_ANCHORS + ["include/hgraph/runtime/node_scheduler.h", "src/hgraph/runtime/global_state.cpp"]
_SPARSE_BOUNDS = ("two real graphs over one GlobalState, node structs from record_replay_memory_impl.h wired directly. History as in C20_graph (drivers of hk_c20.h, NCYC cycles that tick or "
                  "not, bounds NPRIM / NPRIM5 / NKEYS, symbolic payloads); every observable tick i is one entry (t_i, capture_delta) of a SPARSE recording with SYMBOLIC absolute times "
                  "t_0 = MIN_ST + [0,GMAX], consecutive cycles [1,GMAX] apart (adjacent cycles and arbitrary holes). Run 1 (graph trait recordable_id='comp', from MIN_ST): "
                  "replay_impl<S>('in', recordable_id 'src') reading the seeded ':memory:comp.src.in' -> sparse_record_impl('out', 'rec') writing ':memory:comp.rec.out'. Run 2 (fresh graph, no "
                  "trait, GlobalState copied from run 1's final state, decoy recordings under three neighbouring keys): start = MIN_ST + k, SYMBOLIC k in [0, GMAX*NCYC+2] (before the first entry, "
                  "on an entry, between entries, beyond the last entry, empty / absent recording): replay_impl<S>('out', recordable_id 'comp.rec') -> sparse_record_impl('out2','chk') and "
                  "-> dense_record_impl('el', sparse=true); shapes by bit mask SHAPES (TS<int>, TSS<int>, TSD<int,TS<int>>; quick: key universe {1}, thorough: {1,2})")
_SPARSE_OUTSIDE = (_OUTSIDE + "; recordings with two entries at one time; a replaying run that ENDS before the last entry; a recorder and a replay on the same key in one graph; "
                   "nested recordable scopes deeper than one trait level; compare; the record / replay operator front door; frame / table backends")
_SPARSE_REACH = ["end", "two_entries", "gap_then_tick", "empty_recording", "start_before_first_entry", "start_on_first_entry", "start_on_later_entry", "start_between_entries",
                 "start_beyond_last_entry", "mid_start_skips_and_replays", "mid_start_two_entries_replayed", "two_entries_skipped"]
reg("C20",
    name="C20_sparse", src="harness/C20_sparse.cpp",
    anchor_files=_SPARSE_ANCHORS,
    quick=dict(defs=dict(NCYC=3, NPRIM=1, NPRIM5=1, NKEYS=1, SHAPES=7), symx=dict(shards=16, **{"max-wall": 2400, "shard-depth": 3})),
    thorough=dict(defs=dict(NCYC=3, NPRIM=1, NPRIM5=1, NKEYS=2, SHAPES=7), symx=dict(shards=16, **{"max-wall": 3000, "shard-depth": 3})),
    reach=_SPARSE_REACH + ["key_removed", "child_only_tick", "class_empty_delta_on_valid_collection", "mid_start_delta_depends_on_skipped_prefix"],
    bounds=_SPARSE_BOUNDS,
    outside=_SPARSE_OUTSIDE,
    assumptions=["replay_impl / sparse_record_impl / dense_record_impl are wired directly as static nodes, not through the operator registry; the recording read by run 1 is seeded by the "
                 "harness with testing::make_sparse_buffer / make_sparse_entry (the calls sparse_record_impl itself makes); run 2 reads the list the real sparse_record_impl wrote; "
                 "entry times are strictly increasing (one entry per evaluation cycle, which is what a recorder produces within one run)",
                 "for a replay that starts inside the recording the expected per-tick delta is the one obtained by applying exactly the entries at/after the start, in order, to a fresh "
                 "stand-alone output with apply_delta (C20_delta checks apply_delta against the original); the recorded delta itself is demanded where it cannot depend on the skipped "
                 "prefix (TS<int>; any shape when nothing is skipped)"],
    )
reg("C20",
    name="C20_sparse_append", src="harness/C20_sparse.cpp",
    anchor_files=_SPARSE_ANCHORS,
    quick=dict(defs=dict(NCYC=3, NPRIM=1, NPRIM5=1, NKEYS=1, SHAPES=1, APPEND=1), symx=dict(shards=16, **{"max-wall": 2400, "shard-depth": 3})),
    thorough=dict(defs=dict(NCYC=3, NPRIM=1, NPRIM5=1, NKEYS=2, SHAPES=7, APPEND=1), symx=dict(shards=16, **{"max-wall": 3000, "shard-depth": 3})),
    reach=_SPARSE_REACH + ["recording_appended_across_runs", "appended_recording_read_from_the_middle"],
    bounds="as C20_sparse, but the recording is written by TWO recording runs over one GlobalState: the first sees entries [0, split) and ends one MIN_TD after the last of them, the second "
           "starts there, sees entries [split, n) and its sparse_record_impl APPENDS to the list the first one left (split enumerated in [0, n]); quick: TS<int> only",
    outside=_SPARSE_OUTSIDE,
    )
reg("C20",
    name="C20_sparse_shapes", src="harness/C20_sparse.cpp", tiers=("thorough",),
    anchor_files=_SPARSE_ANCHORS,
    thorough=dict(defs=dict(NCYC=3, NPRIM=1, NPRIM5=1, NKEYS=2, SHAPES=0x3f8), symx=dict(shards=16, **{"max-wall": 3000, "shard-depth": 3})),
    reach=_SPARSE_REACH + ["key_removed", "child_only_tick"],
    bounds="as C20_sparse for the other seven shapes of hk_c20.h (TSL fixed / dynamic, the two TSB shapes, TSD<int,TSS<int>>, the two TSW shapes)",
    outside=_SPARSE_OUTSIDE,
    )

META = dict(
    level="bounded symbolic model checking of the type-erased delta round trip (ts_delta.cpp capture_delta / delta_is_observable / apply_delta and the per-kind TSDataOps "
          "capture/apply/has-effect implementations) on stand-alone real endpoints: every tick history up to the bound for nine schema shapes, all payloads symbolic",
    note="C20_graph runs the real replay_impl -> dense_record_impl node structs in a real graph (record o replay = id on buffers); "
         "C20_sparse runs the absolute-time form (sparse_record_impl, replay_impl with a recordable_id) with symbolic entry times and a second run that starts at a symbolic "
         "time inside / before / beyond the recording; "
         "two input classes that contradict the literal statement are listed in known_findings.jsonl under their own assertion ids",
)

reg("C17",
    name="C17_realtime", src="harness/C17_realtime.cpp",
    anchor_files=["src/hgraph/runtime/executor.cpp", "include/hgraph/runtime/node_scheduler.h", "src/hgraph/runtime/node.cpp", "src/hgraph/runtime/evaluation_clock.cpp"],
    quick=dict(defs=dict(KNODES=2, JEVALS=1, DMAX=3, WIN=8, BUSY_MAX_US=2, LATE_MAX_US=2, MAX_WAITS=6), symx=dict(shards=16, **{"max-wall": 900})),
    thorough=dict(defs=dict(KNODES=2, JEVALS=2, DMAX=3, WIN=10, BUSY_MAX_US=2, LATE_MAX_US=2, MAX_WAITS=8), symx=dict(shards=16, **{"max-wall": 3000, "shard-depth": 8})),
    reach=["end", "run_returned", "ran_to_end_time", "stop_requested_during_wait", "stop_requested_during_start", "three_cycles"],
    bounds="real-time executor, single evaluation thread; KNODES self-scheduling nodes re-scheduling JEVALS times by a symbolic delta in [0,DMAX] us; run starts "
           "0..3 us behind the wall clock (symbolic); every timed wait may overshoot its deadline by 0..LATE_MAX_US us and node 0's evaluation takes 0..BUSY_MAX_US us "
           "(both enumerated); a stop request is injected at the k-th wait for every k < MAX_WAITS, from a node's start hook, or never; window WIN us",
    outside="wall-clock alarms (see C17_alarm); the 1024-cycle drain cut; pushes (covered by C16_push_rt); real threads and data races; sub-microsecond clock values",
    assumptions=["the wall clock is symx's virtual clock: it advances only while waiting (to the wait deadline plus lateness) and while node 0 evaluates; "
                 "symbolic wait deadlines are made concrete by solver-driven enumeration",
                 "condition-variable waits are modelled for a single thread: mutex released, verif_wait_hook (the environment) runs, then notified or timed out"],
    )

reg("C17",
    name="C17_alarm", src="harness/C17_realtime.cpp",
    anchor_files=["include/hgraph/runtime/node_scheduler.h", "src/hgraph/runtime/executor.cpp", "src/hgraph/runtime/node.cpp", "src/hgraph/runtime/evaluation_clock.cpp"],
    quick=dict(defs=dict(KNODES=2, JEVALS=1, DMAX=3, WIN=8, BUSY_MAX_US=2, LATE_MAX_US=2, MAX_WAITS=4, ALARMS=1), symx=dict(shards=16, **{"max-wall": 900})),
    thorough=dict(defs=dict(KNODES=2, JEVALS=2, DMAX=3, WIN=10, BUSY_MAX_US=2, LATE_MAX_US=2, MAX_WAITS=6, ALARMS=1), symx=dict(shards=16, **{"max-wall": 3000, "shard-depth": 8})),
    reach=["end", "run_returned", "ran_to_end_time", "already_due_alarm_requested", "stop_requested_during_wait", "three_cycles"],
    bounds="as C17_realtime, but node 1 asks for WALL-CLOCK alarms (NodeScheduler::schedule(when, tag, on_wall_clock=true)) at host time (wall now + d) with symbolic "
           "d in [-2,DMAX] us: alarms in the future, alarms already due when requested (d <= 0) and alarms overtaken by a lagging graph (logical now behind the host "
           "clock after node 0's busy evaluation); node 0 keeps logical-time requests",
    outside="alarms requested from a start hook; tagged alarms and their replacement; the 1024-cycle drain cut; real threads and data races; sub-microsecond clock values",
    assumptions=["the wall clock is symx's virtual clock: it advances only while waiting (to the wait deadline plus lateness) and while node 0 evaluates",
                 "an already-due alarm is expected at max(evaluation time + smallest step, max(evaluation time, host clock at the request)) - the 'next evaluatable cycle' of "
                 "node_scheduler.h; a future alarm at exactly its host time",
                 "condition-variable waits are modelled for a single thread: mutex released, verif_wait_hook (the environment) runs, then notified or timed out"],
    )

reg("C17",
    name="C17_drain", src="harness/C17_drain.cpp",
    anchor_files=["src/hgraph/runtime/executor.cpp"],
    quick=dict(defs=dict(GROUPS=350, FOLLOW=3), symx=dict(shards=1, **{"max-wall": 600})),
    thorough=dict(defs=dict(GROUPS=700, FOLLOW=2), symx=dict(shards=1, **{"max-wall": 1200})),
    reach=["end", "run_returned", "more_than_1024_smallest_steps_in_total"],
    bounds="a real-time run whose one-second window lies 30/60/90 s (enumerated) behind the wall clock; one source alternating a step of 2..5 us (enumerated) with FOLLOW "
           "smallest-step follow-ups, GROUPS times: more than 1024 smallest-step cycles in total, never more than FOLLOW in a row; every value concrete per path",
    outside="the cut itself (>= 1024 consecutive smallest steps after the wall clock passed the end time) is permitted by the statement and not asserted",
    )

reg("C17",
    name="C17_lag_push", src="harness/C17_lag_push.cpp",
    anchor_files=["src/hgraph/runtime/executor.cpp", "src/hgraph/runtime/push_source_node.cpp", "src/hgraph/runtime/graph.cpp"],
    quick=dict(defs=dict(NTICKS=6, GAPMAX=4), symx=dict(shards=2, **{"max-wall": 600})),
    thorough=dict(defs=dict(NTICKS=10, GAPMAX=6), symx=dict(shards=4, **{"max-wall": 1200})),
    reach=["end", "run_returned", "pushed_during_lagging_evaluation"],
    bounds="a real-time run whose window lies 30/60 s behind the wall clock; a ticker re-scheduling itself NTICKS times with an enumerated gap of 1..GAPMAX us; "
           "during one enumerated tick (not the last) its evaluation pushes a symbolic payload into a queue push source of the same graph",
    outside="pushes from other threads (C16_queue_mt); a push during the last scheduled evaluation of a lagging run (the run has reached its end time)",
    )

META = dict(
    level="bounded symbolic model checking of the real-time run loop (executor.cpp run_storage/advance_realtime with the real condition-variable wait_for, "
          "graph.cpp, node.cpp, node_scheduler.h) under a virtual wall clock",
    note="time dimension is partly enumerated (lateness, busy time) and partly symbolic (deltas, start lag); threads are not modelled here",
)

_SRC = "harness/C15_capture.cpp"
_OUT = ("contents of the trace / stack / activation_back_trace fields of NodeError (only error_msg is compared); non-std::exception throws "
        "(message 'unknown error'); capture on nodes that write their output before throwing (left open by the statement); real-time executor")

reg("C15",
    name="C15_capture", src=_SRC,
    anchor_files=["src/hgraph/runtime/node.cpp", "src/hgraph/runtime/node_error.cpp", "include/hgraph/runtime/node_error.h", "src/hgraph/types/graph_wiring.cpp"],
    quick=dict(defs=dict(MODE=0, NCYC=3, DMAX=2, TSCHED=1), symx=dict(shards=16, **{"max-wall": 900})),
    thorough=dict(defs=dict(MODE=0, NCYC=4, DMAX=2, TSCHED=1), symx=dict(shards=16, **{"max-wall": 3000, "shard-depth": 8})),
    reach=["end", "no_throw", "throw", "throw_in_first_cycle", "throw_in_consecutive_evaluations", "normal_evaluation_after_throw",
           "thrower_woken_by_own_schedule", "throw_while_own_wakeup_pending", "two_nodes_throw", "two_nodes_throw_in_same_cycle",
           "same_error_message_in_two_cycles", "same_error_message_again_after_a_good_evaluation"],
    bounds="per-node capture (Wiring::activate_error_capture via exception_time_series): src -> T (capturing compute node that also self-schedules) -> "
           "dependent sink, error_output(T) -> error sink; S (capturing self-scheduling SOURCE node) -> dependent sink, error_output(S) -> error sink; "
           "src -> independent node (wired after T and S) -> sink. NCYC source cycles; payloads symbolic in [-1000,1000]; all cycle deltas symbolic in "
           "[1,DMAX]; T may re-schedule itself in its first TSCHED evaluations by a symbolic delta in [0,DMAX] (0 = no request), requested BEFORE it "
           "throws; the set of evaluations in which T / S throw is one symbolic bool per evaluation (every subset); enumerated: all throws of a node carry the same "
           "message / a message numbered by the evaluation; the whole program is run twice "
           "inside each path (fault script armed / disarmed) on the same inputs and the recorded streams are compared",
    outside=_OUT,
    )

reg("C15",
    name="C15_try_except", src=_SRC,
    anchor_files=["src/hgraph/runtime/try_except_node.cpp", "src/hgraph/runtime/graph.cpp", "src/hgraph/runtime/node_error.cpp", "src/hgraph/runtime/nested_graph_node.cpp"],
    quick=dict(defs=dict(MODE=1, NCYC=3, DMAX=2, TSCHED=1), symx=dict(shards=16, **{"max-wall": 900})),
    thorough=dict(defs=dict(MODE=1, NCYC=4, DMAX=3, TSCHED=2), symx=dict(shards=16, **{"max-wall": 3000, "shard-depth": 8})),
    reach=["end", "no_throw", "throw", "throw_in_first_cycle", "throw_in_consecutive_evaluations", "normal_evaluation_after_throw", "thrower_woken_by_own_schedule",
           "throw_while_own_wakeup_pending", "same_error_message_in_two_cycles", "same_error_message_again_after_a_good_evaluation"],
    bounds="try_except over a sub-graph, wired by the real wire_try_except (higher_order_impl.h) with a hand-made WiredFn -> try_except_node: "
           "src -> try_except( pre -> T -> post ) -> out sink / exception sink, src -> independent node -> sink. T throws in a symbolic subset of its "
           "evaluations and may self-schedule (as in C15_capture); NCYC source cycles, payloads / deltas symbolic; faulty run and fault-free twin in one path",
    outside=_OUT + "; try_except over a sink sub-graph (bare TS<NodeError> output); pausing children",
    )

reg("C15",
    name="C15_map_capture", src=_SRC,
    anchor_files=["src/hgraph/runtime/map_node.cpp", "src/hgraph/runtime/graph.cpp", "src/hgraph/runtime/node_error.cpp", "src/hgraph/types/graph_wiring.cpp"],
    quick=dict(defs=dict(MODE=2, NCYC=3, DMAX=2, TSCHED=0), symx=dict(shards=16, **{"max-wall": 900})),
    thorough=dict(defs=dict(MODE=2, NCYC=4, DMAX=2, TSCHED=0), symx=dict(shards=16, **{"max-wall": 3000, "shard-depth": 8})),
    reach=["end", "no_throw", "key_child_throws", "one_key_throws_other_key_runs", "both_keys_throw", "key_child_normal_evaluation_after_throw",
           "same_error_message_in_two_cycles"],
    bounds="keyed map with per-key error capture (real wire_map + exception_time_series on the TSD output -> map_node write_map_error): keysrc (keys 0 and 1, "
           "both added in cycle 0, afterwards an enumerated non-empty subset of the keys is updated per cycle) -> map_( (key, x): pre -> TK ) -> per-key "
           "dependent sink; error TSD -> per-key error sink; src -> independent node -> sink. TK of key k throws in a symbolic subset of its evaluations; "
           "NCYC cycles; payloads / deltas symbolic; faulty run and fault-free twin in one path",
    outside=_OUT + "; key removal while an error is outstanding; more than two keys",
    )

reg("C15",
    name="C15_map_beat", src="harness/C15_map_beat.cpp",
    anchor_files=["src/hgraph/runtime/map_node.cpp", "src/hgraph/runtime/graph.cpp", "src/hgraph/runtime/node.cpp", "src/hgraph/runtime/node_error.cpp"],
    quick=dict(defs=dict(NBEAT=3, PMAX=2), symx=dict(shards=16, **{"max-wall": 900})),
    thorough=dict(defs=dict(NBEAT=3, PMAX=3), symx=dict(shards=16, **{"max-wall": 3000, "shard-depth": 8})),
    reach=["end", "no_throw", "key_child_throws", "both_keys_throw", "self_scheduling_node_itself_throws_after_rearming",
           "one_key_throw_with_rearmed_wakeup_and_no_other_map_wakeup_before_it",
           "two_keys_throw_with_rearmed_wakeup_and_no_other_map_wakeup_before_it",
           "two_keys_different_periods_other_key_beats_only_after_the_rearmed_time",
           "key_child_normal_evaluation_after_throw", "throw_in_consecutive_beats", "throw_in_first_cycle"],
    bounds="keyed map with per-key error capture (real wire_map + exception_time_series) whose per-key child is (key, x) -> Beat -> TK: Beat is "
           "SELF-SCHEDULING (re-arms its NodeScheduler in each of its first NBEAT-1 evaluations, symbolic delta in [1,PMAX]); the keyed source ticks in "
           "cycle 0 ONLY (enumerated: 1 or 2 keys), so afterwards the map node is woken by the children's own timers only; the child of key k throws in "
           "a symbolic subset of its NBEAT evaluations (key 1: of its first NBEAT-1), i.e. in a cycle in which Beat has just re-armed; enumerated: the "
           "thrower is TK (downstream of Beat) or Beat itself (after re-arming); key 0 one symbolic delta per re-arm, key 1 one symbolic period; "
           "independent source ticks at t0 and t0+symbolic delta; payloads symbolic; faulty run and fault-free twin in one path",
    outside=_OUT + "; key removal / input ticks while a re-armed wake-up is pending (C15_map_capture has input ticks, no self-scheduling); more than two keys; "
            "a thrower ordered BEFORE the self-scheduling node in the child graph",
    )

META = dict(
    level="bounded symbolic relational checking (faulty run vs fault-free twin of the same program on the same symbolic inputs, inside one path) of the real "
          "error-capture code: node.cpp evaluate_impl / write_node_error, try_except_node.cpp, map_node.cpp per-key capture, graph.cpp nested evaluate_impl, "
          "node_error.cpp, graph_wiring.cpp activate_error_capture",
    note="every subset of throwing evaluations within the bound; see notes/C15.md for the defect found in the nested-graph path (resume at the failed node)",
)

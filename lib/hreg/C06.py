reg("C06",
    name="C06_order", src="harness/C06_order.cpp",
    anchor_files=["src/hgraph/types/graph_wiring.cpp", "include/hgraph/types/graph_wiring.h", "include/hgraph/types/static_node.h",
                  "include/hgraph/lib/std/operators/control.h", "src/hgraph/runtime/node.cpp", "src/hgraph/runtime/graph.cpp"],
    quick=dict(defs=dict(NX=2, DMAX=3, WMAX=4), symx=dict(shards=16, **{"max-wall": 900})),
    thorough=dict(defs=dict(NX=3, DMAX=3, WMAX=7), symx=dict(shards=16, **{"max-wall": 3000, "shard-depth": 8})),
    reach=["end", "permuted_order", "identity_permutation", "two_output_ticks", "shared_subexpression", "feedback_delivered",
           "fan_in_sources_tick_together", "structural_input_producers_at_different_depths"],
    bounds="5 dataflow programs of 5-6 wiring statements (diamond with two recorders; fan-in of two sources plus an independent branch; chain with a "
           "duplicated sub-expression; feedback loop with recorders on producer and reader; one consumer with a structural TSL<TS<Int>,2> input {shallow, deep} whose producers sit at different depths) x EVERY admissible permutation of their statements "
           "(enumerated through the ready set), each permutation wired, built and run next to the reference order on the same script; script sources "
           "with NX emissions (first offset symbolic in [0,DMAX] us, gaps in [1,DMAX] us, values in [-1e6,1e6]); start symbolic in [0,1000] us; "
           "window symbolic in [1,WMAX] us",
    outside="programs with more than 6 statements or other shapes; nested / higher-order / service nodes in the permuted program; push sources "
            "(ranked in a separate prefix); relative evaluation order of independent nodes inside one cycle (by design a function of insertion order; "
            "the property only requires it not to be observable in outputs)",
    )
reg("C06",
    name="C06_intern", src="harness/C06_intern.cpp",
    anchor_files=["src/hgraph/types/graph_wiring.cpp", "include/hgraph/types/graph_wiring.h", "include/hgraph/types/static_node.h",
                  "include/hgraph/types/wired_fn.h", "src/hgraph/runtime/node.cpp"],
    quick=dict(defs=dict(NX=2, DMAX=3, WMAX=5, SMAX=1), symx=dict(shards=16, **{"max-wall": 900})),
    thorough=dict(defs=dict(NX=3, DMAX=3, WMAX=6, SMAX=3), symx=dict(shards=16, **{"max-wall": 3000, "shard-depth": 8})),
    reach=["end", "scale_nodes_shared", "same_input_different_scalar_distinct", "different_input_distinct", "sinks_ticked", "resolved_types_both_ticked"],
    bounds="one graph: definition Scale wired twice with inputs p, q enumerated in {A, B} and scalars s1, s2 symbolic in [0,SMAX] (flowing through "
           "Value::hash / Value::equals of the real InstanceKey and the unordered_map bucket selection, which makes the engine enumerate all (SMAX+1)^2 value pairs); two identical Count sinks on the same port; a generic "
           "definition Gen wired on the same input at resolved output types TS<Int>, TS<Bool>, TS<Int>; recorders on every output; two script sources with "
           "NX emissions (symbolic times as in C06_order, values in [-1000,1000]); start / window symbolic",
    outside="interning inside sub-graph wirings and of nested-graph nodes (C06_boundary; map_ / switch_ children: not for sharing), service nodes, add_unique_node users; scalars of non-integer types; scalar ranges beyond [0,SMAX] (bucket enumeration cap); "
            "WiredFn-valued scalars (wired_fn.h identity) are not exercised",
    )

reg("C06",
    name="C06_passive", src="harness/C06_passive.cpp",
    anchor_files=["src/hgraph/types/graph_wiring.cpp", "include/hgraph/types/graph_wiring.h", "include/hgraph/types/static_node.h", "src/hgraph/runtime/node.cpp"],
    quick=dict(defs=dict(NX=2, DMAX=3, WMAX=5), symx=dict(shards=16, **{"max-wall": 600})),
    thorough=dict(defs=dict(NX=3, DMAX=3, WMAX=7), symx=dict(shards=16, **{"max-wall": 3000, "shard-depth": 8})),
    reach=["end", "b_ticks_alone", "active_use_ticked"],
    bounds="one graph: wire<Sum2>(w, A, B) and wire<Sum2>(w, A, passive(B)) (same definition, ports and scalars; only the activity of input b differs), "
           "both wiring orders enumerated; recorders on both outputs; script sources A, B with NX emissions each (first offset symbolic in [0,DMAX] us, "
           "gaps in [1,DMAX] us, values in [-1000,1000]); start / window symbolic",
    outside="other per-use-site markers (ArgTag values other than Passive), InputActivity declared in the node signature (a different definition), "
            "nested / higher-order call sites",
    )

reg("C06",
    name="C06_boundary", src="harness/C06_boundary.cpp",
    anchor_files=["src/hgraph/types/graph_wiring.cpp", "include/hgraph/types/graph_wiring.h", "include/hgraph/types/subgraph_wiring.h",
                  "include/hgraph/types/static_node.h", "src/hgraph/runtime/nested_graph_node.cpp", "src/hgraph/runtime/try_except_node.cpp",
                  "include/hgraph/lib/std/operators/impl/higher_order_impl.h"],
    quick=dict(defs=dict(NX=2, DMAX=3, WMAX=4, NORD=2, HOST_TRY=1), symx=dict(shards=16, **{"max-wall": 900})),
    thorough=dict(defs=dict(NX=3, DMAX=3, WMAX=6, NORD=4, HOST_TRY=1, TRY_MASK=0x33f), symx=dict(shards=16, **{"max-wall": 3000, "shard-depth": 8})),
    reach=["end", "argument_i_vs_capture_i_both_ticked", "argument_1_vs_capture_1", "argument_i_vs_argument_j", "capture_i_vs_capture_j",
           "same_port_captured_twice_shared", "same_capture_different_scalar_distinct", "argument_and_capture_of_same_outer_port",
           "paths_of_one_structural_argument", "structural_argument_path_vs_structural_capture_path", "paths_of_one_structural_capture",
           "explicit_capture_vs_implicit_capture", "explicit_and_implicit_capture_of_same_port", "two_call_sites_different_inputs",
           "two_call_sites_same_input_shared", "two_call_sites_same_input_different_scalar", "child_statement_order_permuted",
           "hosted_by_try_except", "two_output_ticks"],
    bounds="node sharing INSIDE a compiled child wiring (WiringKind::SubGraph) over boundary sources. One dataflow d1 = Scale(p, k1); d2 = Scale(q, k2); "
           "Rec0(d1); Rec1(d2); out = Comb(d1, d2) is wired flat in the root wiring and nested (the five statements in a child wiring behind a real "
           "single_nested_graph_node, and - scenarios TRY_MASK: quick {0, 3, 4, 8}, thorough every scenario with one call site and no structural source - behind the real wire_try_except), both built and run in one path on "
           "the same script. 13 ENUMERATED scenarios for (p, q): declared argument #0 vs explicit capture #0 (Wiring::capture_outer_source), argument #1 vs "
           "capture #1 (with unused argument #0 / capture #0), argument #0 vs #1, capture #0 vs #1 (no declared argument), the same outer port captured "
           "twice, argument #0 vs capture of the same outer port, paths {0} / {1} of one structural TSL argument, path {1} of a structural argument vs "
           "path {1} of a structural capture, paths {0} / {1} of one structural capture, explicit capture vs implicit closure capture (foreign peered "
           "port, numbered behind the explicit ones by finish_subgraph), explicit and implicit capture of the same port, two call sites of one nested "
           "definition on different / the same port (nested NODE interning through the factory overload of add_node, scalar in the identity); equal / "
           "different scalars where the reference is the same (same capture twice, same call-site input); NORD statement orders inside the child (which Scale is wired and which source captured first; "
           "recorders before / after the combiner); two script sources with NX emissions (first offset symbolic in [0,DMAX] us, gaps in [1,DMAX] us, "
           "values in [-1000,1000]); outer ports A, B, F(A), G(B); start symbolic in [0,1000] us; window symbolic in [1,WMAX] us",
    outside="children of map_ / switch_ / reduce / mesh (their own capture-slot bookkeeping: compile_map_child, compile_switch_branch captured_slots) - the "
            "interning inside the child is the same Wiring code, only the binding of captured inputs differs; context-published captures "
            "(resolve_context_source); captures of REF / TSD / TSB-typed ports; grand-child wirings capturing from two levels up; symbolic scalars (C06_intern); "
            "the Python capture front end (_core.py)",
    )

META = dict(
    level="bounded symbolic model checking of wiring (graph_wiring.cpp Wiring::add_node interning key hash/equality, build_ranked_graph) together with "
          "the simulation run of the built graph: relational (reference order vs every admissible permutation; nested child wiring over boundary sources vs the same dataflow wired flat) and model-based (un-shared model) oracles; "
          "program shapes and permutations enumerated, scalars / times / values symbolic",
    note="known finding P1 (C06_passive): a passive(b) use and an active use of the same definition/ports/scalars are merged into one instance whose "
         "activity is that of the FIRST wired use - listed in known_findings.jsonl; bounds in evidence coverage.harnesses[*].bounds",
)

_ANCHORS = ["src/hgraph/runtime/graph.cpp", "src/hgraph/runtime/executor.cpp", "src/hgraph/runtime/node.cpp", "include/hgraph/util/scope.h",
            "include/hgraph/runtime/lifecycle_observer.h", "src/hgraph/runtime/nested_graph_node.cpp", "src/hgraph/runtime/map_node.cpp"]

reg("C14",
    name="C14_lifecycle", src="harness/C14_lifecycle.cpp",
    anchor_files=_ANCHORS,
    quick=dict(defs=dict(NCYC=3, NFAULT=2, DMAX=3, PAIR_START_STOP=1), symx=dict(shards=16, **{"max-wall": 900})),
    thorough=dict(defs=dict(NCYC=4, NFAULT=3, DMAX=3, PAIR_START_STOP=1), symx=dict(shards=16, **{"max-wall": 3000, "shard-depth": 8})),
    reach=["end", "clean_run", "start_fault", "eval_fault", "stop_fault_only", "two_faults_thrown", "eval_fault_then_stop_fault",
           "start_fault_then_stop_fault", "fault_in_nested_child", "eval_fault_cleanup_off", "stop_request_cut_run"],
    bounds="root graph src -> mid -> nested node(c0 -> c1) -> sink (5 scripted nodes with start/eval/stop hooks + the nested-graph node, 2 graph levels); "
           "NFAULT fault descriptors, each none or (node in the 5, phase in {start, evaluate, stop}, occurrence): every single fault and every "
           "unordered combination incl. evaluate+stop, start+stop, stop+stop; the occurrence of an evaluate fault symbolic in [0,NCYC); "
           "cleanup_on_error on/off; request_stop absent or issued from mid's evaluation number k, k symbolic in [0,NCYC); NCYC source cycles "
           "with symbolic re-scheduling deltas in [1,DMAX]; simulation executor",
    outside="observer callbacks that themselves throw; switch_/reduce children; real-time executor; more than NFAULT simultaneous faults; "
            "non-std::exception throws; restart of a stopped graph (not supported by design)",
    assumptions=["the executor is released (GraphExecutorValue destroyed) by the caller right after run() returns or throws"],
    )

reg("C14",
    name="C14_lifecycle_map", src="harness/C14_lifecycle_map.cpp",
    anchor_files=_ANCHORS,
    quick=dict(defs=dict(NCYC=3, NFAULT=1), symx=dict(shards=16, **{"max-wall": 900})),
    thorough=dict(defs=dict(NCYC=4, NFAULT=2), symx=dict(shards=16, **{"max-wall": 3000, "shard-depth": 8}), reach=["three_instances"]),
    reach=["end", "clean_run", "child_removed_during_run", "child_start_fault", "child_eval_fault", "child_stop_fault",
           "child_stop_fault_at_key_removal", "child_stop_fault_at_shutdown", "root_fault_with_live_children"],
    bounds="root graph keysrc -> map_(child graph kidA -> kidB, built by the real wire_map / map_node) -> sink; keys {0,1}; one enumerated key "
           "operation per cycle from {nothing, set K0, set K1, erase K0, erase K1} (only effective erases), NCYC cycles, so child graphs are "
           "created, evaluated, removed and re-created during the run (at most NCYC instances); NFAULT fault descriptors (any node of any "
           "instance that will exist or a root node, phase in {start, evaluate, stop}, evaluate occurrence symbolic); cleanup_on_error on/off; "
           "payload values symbolic",
    outside="more than two keys; switch_/reduce children; nested maps; observer callbacks that throw; real-time executor",
    assumptions=["the executor is released by the caller right after run() returns or throws"],
    )

reg("C14",
    name="C14_lifecycle_reduce", src="harness/C14_lifecycle_reduce.cpp",
    anchor_files=_ANCHORS + ["src/hgraph/runtime/reduce_node.cpp"],
    quick=dict(defs=dict(NCYC=4, NFAULT=1, MAXINST=6, FAULTINST=3), symx=dict(shards=16, **{"max-wall": 900})),
    thorough=dict(defs=dict(NCYC=5, NFAULT=2, MAXINST=8, FAULTINST=4), symx=dict(shards=16, **{"max-wall": 3000, "shard-depth": 8})),
    reach=["end", "clean_run", "combiner_retired_during_run", "three_instances", "two_combiners_live_at_shutdown", "child_start_fault",
           "child_eval_fault", "child_stop_fault", "child_stop_fault_at_key_removal", "child_stop_fault_at_shutdown", "root_fault_with_live_children"],
    bounds="root graph keysrc -> reduce(combiner graph = one two-input node, built by the real wire_reduce_tsd / reduce_node, no zero) -> sink; "
           "one enumerated key operation per cycle from {nothing, add the next unused key, erase the lowest live key, erase the highest live key}, "
           "NCYC cycles (cycle 0 adds the first key), so the combiner tree grows, re-shapes and shrinks during the run (at most MAXINST combiner "
           "instances, overflow asserted); NFAULT fault descriptors (one of the first FAULTINST combiner instances or a root node, phase in "
           "{start, evaluate, stop}, evaluate occurrence symbolic); cleanup_on_error on/off; payload values symbolic",
    outside="reduce over TSL; reduce with a zero input; lifted (kernel) combiners, which have no child graphs; switch_ children; observer callbacks that throw",
    assumptions=["the executor is released by the caller right after run() returns or throws"],
    )

reg("C14",
    name="C14_lifecycle_switch", src="harness/C14_lifecycle_switch.cpp",
    anchor_files=_ANCHORS + ["src/hgraph/runtime/switch_node.cpp"],
    quick=dict(defs=dict(NCYC=3, NFAULT=1), symx=dict(shards=16, **{"max-wall": 900})),
    thorough=dict(defs=dict(NCYC=4, NFAULT=2), symx=dict(shards=16, **{"max-wall": 3000, "shard-depth": 8})),
    reach=["end", "clean_run", "branch_retired_during_run", "three_instances", "reload_same_key_restarts_branch",
           "outgoing_branch_stop_fault_at_switch_over", "incoming_branch_start_fault", "incoming_branch_second_node_start_fault",
           "first_branch_start_fault", "branch_eval_fault", "branch_stop_fault_at_shutdown", "root_fault_with_live_branch"],
    bounds="root graph valsrc, keysrc -> switch_(keys 0 and 1, each branch graph kidA -> kidB, built by the real wire_switch / switch_node) -> sink; "
           "one enumerated key action per cycle from {no tick, key 0, key 1} (cycle 0 ticks a key), NCYC cycles, reload_on_ticked on/off, so the "
           "running branch graph is retired and a new one started during the run (at most NCYC instances, numbered in creation order); NFAULT "
           "fault descriptors (any node of any instance that will exist or a root node, phase in {start, evaluate, stop}, evaluate occurrence "
           "symbolic): stop fault on the outgoing branch at the switch-over, start fault on either node of the incoming branch, faults at the "
           "end of the run; cleanup_on_error on/off; payload values symbolic",
    outside="switch_ whose output forwards to the child terminal (output_forwards_to_child_terminal); default / key-consuming branches; "
            "unmatched key; fault pairs in the quick tier (NFAULT=1; thorough has pairs such as outgoing stop + incoming start); nested switch_; "
            "observer callbacks that throw; real-time executor",
    assumptions=["the executor is released by the caller right after run() returns or throws"],
    )

META = dict(
    level="bounded symbolic model checking of the real lifecycle code (graph.cpp start_impl/stop_impl/evaluate_impl, executor.cpp run_storage/stop_storage/"
          "~SimulationExecutorStorage, node.cpp start_impl/stop_impl, nested_graph_node.cpp, map_node.cpp create_entry_at_slot/remove_entry_at_slot/"
          "map_node_stop, reduce_node.cpp reduce_node_stop / retire path, switch_node.cpp activate_branch / switch_teardown / switch_node_stop, scope.h guards) under an enumerated fault script: every fault point and fault pair within the bound, clean-up on/off, request_stop",
    note="scenarios that exposed defects are asserted under their own ids so they can be told apart: "
         "C14.start_rollback_stops_remaining_nodes_after_failing_stop, C14.map_stop_stops_remaining_children_after_failing_child_stop, "
         "C14.reduce_stop_stops_remaining_combiners_after_failing_combiner_stop, C14.reduce_retired_combiner_stop_error_reaches_caller "
         "(see notes/C14.md); bounds in evidence coverage.harnesses[*].bounds",
)

_ANCHORS = ["src/hgraph/types/time_series/ts_data/types.cpp", "src/hgraph/types/time_series/ts_data/base_view.cpp",
            "include/hgraph/types/time_series/ts_data/base_view.h", "src/hgraph/types/time_series/ts_output/base_view.cpp",
            "src/hgraph/types/time_series/ts_input/base_view.cpp", "src/hgraph/types/time_series/ts_input/target_link_ops.cpp",
            "src/hgraph/types/time_series/ts_input/target_link.cpp",
            "src/hgraph/types/metadata/ts_data_atomic_ops.cpp", "src/hgraph/types/metadata/ts_data_fixed_structured_ops.cpp",
            "src/hgraph/types/metadata/ts_data_slot_ops.cpp", "src/hgraph/types/metadata/ts_data_window_ops.cpp"]

reg("C04",
    name="C04_flags", src="harness/C04_flags.cpp",
    anchor_files=_ANCHORS,
    quick=dict(defs=dict(NCYC=2, NOPS=2, NK=2, GMAX=1000), symx=dict(shards=16, **{"max-wall": 900})),
    thorough=dict(defs=dict(NCYC=3, NOPS=2, NK=2, BIG_LAST=1, GMAX=1000), symx=dict(shards=16, **{"max-wall": 3000, "shard-depth": 8})),
    reach=["end", "shape_ts", "shape_signal", "shape_tss", "shape_tsd", "shape_tsb", "shape_tsl", "shape_tsw", "shape_tsd_tsb",
           "late_consumer_bound", "idle_cycle", "second_write_same_cycle", "invalidated", "child_only_write", "child_invalidated",
           "whole_value_write", "whole_value_write_without_fields", "whole_value_write_one_field", "key_added", "key_erased", "key_resurrected_same_cycle", "noop_remove_ticks", "window_cleared", "window_rolled"],
    bounds="unit level, no graph: one real TSOutput of each shape in {TS<int>, SIGNAL, TSS<int>, TSD<int,TS<int>>, TSB{a,b}, TSL<TS<int>,2>, TSW<int,2,1>, "
           "TSD<int,TSB{a,b}>} (enumerated) with three real TSInput consumers bound to it (passive; active with a notifier; bound one cycle late); NCYC cycles "
           "(NCYC+1 for TS/SIGNAL/TSW) of NOPS producer operations each (BIG_LAST in the last cycle of TSD, TSB, TSL, TSW and TSD<int,TSB>), operations enumerated from "
           "{nothing, write, write twice, child-only write, whole-value write through the parent with both / no / one child set (TSB, TSL), invalidate root, invalidate child, add/remove/clear (TSS), set/erase/clear/"
           "element write/element invalidate (TSD), push/clear/clear+push (TSW)}; keys from {0..NK-1} concrete; base time in [0,1e6] us, every gap between "
           "cycles in [1,GMAX] us and every payload in [-1e6,1e6] symbolic; all flags checked at the cycle time and at the following idle instant (T+1 us)",
    outside="more cycles/operations per cycle; REF shapes and forwarding outputs (C13); duration-based windows; unbinding / rebinding consumers (C13/C11); "
            "non-peered (per-element bound) consumer prefixes; element types other than int; deeper nestings than TSD<int,TSB>",
    assumptions=["endpoints are driven directly through the public TSOutput / TSInput view API, outside a graph: evaluation times are supplied by the harness "
                 "in strictly increasing order, as the evaluation engine does (C01/C02)",
                 "after an explicit invalidation the producer view reads modified=false / last_modified_time=MIN_DT (the state invariant in the property's anchors); "
                 "the consumer-side disagreement in that state is reported under its own assertion id (known finding)"],
    )

reg("C04",
    name="C04_fanin", src="harness/C04_fanin.cpp",
    anchor_files=_ANCHORS,
    quick=dict(defs=dict(NCYC=2, NOPS=2, LAST_OPS=1, GMAX=1000), symx=dict(shards=16, **{"max-wall": 600})),
    thorough=dict(defs=dict(NCYC=3, NOPS=2, LAST_OPS=1, GMAX=1000), symx=dict(shards=16, **{"max-wall": 3000, "shard-depth": 8})),
    reach=["end", "fanin_list", "fanin_bundle", "bound_source_ticks", "late_bind_of_unwritten_source", "late_bind_of_source_written_this_cycle",
           "late_bind_replays_older_time", "late_bind_replays_older_time_after_parent_ticked_this_cycle"],
    bounds="unit level, no graph: one active TSInput with the non-peered root TSB{items: X}, X in {non-peered TSL<TS<int>,2> of peered elements, non-peered TSB{a,b} "
           "of peered fields} (enumerated), two TSOutput<TS<int>> sources; NCYC+1 cycles of NOPS operations (LAST_OPS in the last) from {nothing, write source i, "
           "bind element i to source i (late / dynamic binding via TSInputView::bind_output, replaying the source's historical stamp)} in every order; base time, "
           "gaps in [1,GMAX] us (so the replayed t_old < T is symbolic) and payloads symbolic; elements, container and root checked at the cycle time and at T+1 us; "
           "notifications of the active root checked one by one (due exactly when the root stamp advances, carrying that time)",
    outside="unbind / rebind of an element, sampled binds (bind_output_sampled), REF sources, more than two elements, nested non-peered prefixes below the container",
    assumptions=["late binding is done from harness code with TSInputView::bind_output, the call the runtime uses when nested graphs are instantiated"],
    )

META = dict(
    level="bounded symbolic model checking of the time-series flag machinery (TSDataTracking::record_modified, TSParentLink::notify_child_modified, invalidate, "
          "atomic / fixed-structured / slot / window ops, TSOutputView and TSInputView / target-link reads) against a mirror model: every operation history up to "
          "the bound for eight shapes, all times and payloads symbolic",
    note="F1 (consumer modified / last_modified_time differ from the producer's after an explicit invalidation) is an open known finding asserted under its own "
         "id; F2 (TSInputView::delta_value leaking the value at child positions) was found by this harness and is fixed in /repo 4775a99; the TSW model follows "
         "08e1221 (valid only while min_period elements are held); C04_fanin covers late / dynamic binding of fan-in (non-peered TSB/TSL) consumers: an older "
         "stamp replayed by a bind never rewinds element, container or root; details and triage in notes/C04.md",
)

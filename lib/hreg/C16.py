reg("C16",
    name="C16_push_rt", src="harness/C16_push_rt.cpp",
    anchor_files=["src/hgraph/runtime/push_source_node.cpp", "include/hgraph/runtime/push_source_node.h", "src/hgraph/runtime/executor.cpp", "src/hgraph/runtime/graph.cpp"],
    quick=dict(defs=dict(NWAITS=3, MAXSEND=5, WIN_US=40), symx=dict(shards=16, **{"max-wall": 900})),
    thorough=dict(defs=dict(NWAITS=5, MAXSEND=8, WIN_US=60), symx=dict(shards=16, **{"max-wall": 3000, "shard-depth": 8})),
    reach=["end", "run_returned", "refused_when_full", "two_pushes_in_one_wait", "stop_requested_during_wait", "pushed_during_evaluation", "three_values_delivered"],
    bounds="queue push source with capacity in {unbounded,1,2} in a real-time executor; 0..2 sends from the start callback, optionally one send from inside an "
           "evaluation, and at each of the first NWAITS waits of the run loop one action from {nothing, one try_send, two try_sends, request_stop}; payloads symbolic; "
           "one more try_send after run() returned",
    outside="producer threads running concurrently with the evaluation thread (only interleavings at wait points and inside evaluation are explored here); send_blocking; burst and conflating policies; more than MAXSEND sends",
    assumptions=["condition-variable waits are modelled for a single thread: mutex released, verif_wait_hook (the environment) runs, then notified or timed out",
                 "data races are invisible to this technique"],
    )

META = dict(
    level="bounded symbolic model checking of the queue push source (push_source_node.cpp QueuePolicyStorage, sender control, emit path) inside the real real-time executor, "
          "with the producer acting at every wait point, in the start callback and during evaluation",
    note="thread interleavings finer than wait points are outside this harness",
)

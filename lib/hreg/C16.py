reg("C16",
    name="C16_push_rt", src="harness/C16_push_rt.cpp",
    anchor_files=["src/hgraph/runtime/push_source_node.cpp", "include/hgraph/runtime/push_source_node.h", "src/hgraph/runtime/executor.cpp", "src/hgraph/runtime/graph.cpp"],
    quick=dict(defs=dict(NWAITS=3, MAXSEND=5, WIN_US=40), symx=dict(shards=16, **{"max-wall": 900})),
    thorough=dict(defs=dict(NWAITS=5, MAXSEND=8, WIN_US=60), symx=dict(shards=16, **{"max-wall": 3000, "shard-depth": 8})),
    reach=["end", "run_returned", "refused_when_full", "two_pushes_in_one_wait", "stop_requested_during_wait", "pushed_during_evaluation", "three_values_delivered"],
    bounds="queue push source with capacity in {unbounded,1,2} in a real-time executor; 0..2 sends from the start callback, optionally one send from inside an "
           "evaluation, and at each of the first NWAITS waits of the run loop one action from {nothing, one try_send, two try_sends, request_stop}; payloads symbolic; "
           "one more try_send after run() returned",
    outside="producer threads running concurrently with the evaluation thread (only interleavings at wait points and inside evaluation are explored here); send_blocking; burst and conflating policies; more than MAXSEND sends",
    assumptions=["condition-variable waits are modelled for a single thread: mutex released, verif_wait_hook (the environment) runs, then notified or timed out",
                 "data races are invisible to this technique"],
    )

reg("C16",
    name="C16_queue_mt", src="harness/C16_queue_mt.cpp", threads=True,
    anchor_files=["src/hgraph/runtime/push_source_node.cpp", "include/hgraph/runtime/push_source_node.h", "src/hgraph/runtime/executor.cpp", "src/hgraph/runtime/graph.cpp"],
    quick=dict(defs=dict(NPROD=1, MSGS=2, WIN_US=30), symx=dict(shards=16, **{"max-wall": 900, "max-preempt": 2}), validate=4),
    thorough=dict(defs=dict(NPROD=2, MSGS=2, WIN_US=30), symx=dict(shards=16, **{"max-wall": 3000, "max-preempt": 2, "shard-depth": 10}), validate=8),
    reach=["end", "run_returned", "stopper_present", "all_values_accepted_and_delivered"],
    bounds="NPROD producer threads each sending MSGS payloads (try_send or send_blocking, enumerated) into a queue push source with capacity in {unbounded,1,2}, an optional "
           "stopper thread calling request_stop, and the real-time run loop on the main thread; every interleaving at synchronisation operations (mutex lock/unlock, "
           "condition wait/notify, atomic read-modify-write, thread start/exit) with at most max-preempt preemptive switches",
    outside="interleavings that need more preemptions; data races (code between two synchronisation operations is treated as atomic); burst/conflating policies; OS scheduling fairness",
    assumptions=["threads are symx interpreter threads: counterexamples are re-executed concretely inside symx along the recorded schedule (replay_kind=interpreted), not on native threads",
                 "a timed wait times out only when no other thread can run (time does not pass while some thread is runnable)",
                 "the code is data-race free: only synchronisation operations are scheduling points"],
    )

reg("C16",
    name="C16_queue_mt_stop", src="harness/C16_queue_mt.cpp", threads=True,
    anchor_files=["src/hgraph/runtime/push_source_node.cpp", "src/hgraph/runtime/executor.cpp"],
    quick=dict(defs=dict(NPROD=2, MSGS=1, PREFILL=1, FIX_SCENARIO=1, WIN_US=30), symx=dict(shards=8, **{"max-wall": 900, "max-preempt": 1, "shard-depth": 8}), validate=4),
    thorough=dict(defs=dict(NPROD=3, MSGS=1, PREFILL=1, FIX_SCENARIO=1, WIN_US=30), symx=dict(shards=16, **{"max-wall": 2400, "max-preempt": 1, "shard-depth": 10}), validate=6),
    reach=["end", "run_returned", "stopper_present"],
    bounds="fixed scenario: bounded queue of 1 pre-filled from the start callback, NPROD producer threads each blocking in send_blocking, a stopper thread; every "
           "interleaving at synchronisation operations with at most one preemptive switch: several senders are blocked when the source stops and all of them must be released",
    outside="more preemptions; other capacities (C16_queue_mt); data races",
    assumptions=["threads are symx interpreter threads; counterexamples are re-executed concretely inside symx along the recorded schedule",
                 "the code is data-race free: only synchronisation operations are scheduling points"],
    )

META = dict(
    level="bounded symbolic model checking of the queue push source (push_source_node.cpp QueuePolicyStorage, sender control, emit path) inside the real real-time executor, "
          "with the producer acting at every wait point, in the start callback and during evaluation",
    note="thread interleavings finer than wait points are outside this harness",
)

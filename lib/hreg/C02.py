reg("C02",
    name="C02_sim", src="harness/C02_sim.cpp",
    anchor_files=["src/hgraph/runtime/executor.cpp", "src/hgraph/runtime/graph.cpp", "src/hgraph/runtime/node.cpp", "include/hgraph/runtime/node_scheduler.h"],
    quick=dict(defs=dict(KNODES=2, JEVALS=2, DMAX=2, WMAX=4, NDD=1, NNS=1), symx=dict(shards=16, **{"max-wall": 900, "shard-depth": 10})),
    thorough=dict(defs=dict(KNODES=2, JEVALS=2, DMAX=3, WMAX=5, NDD=2, NNS=2), symx=dict(shards=16, **{"max-wall": 3000, "shard-depth": 8})),
    reach=["end", "three_cycles", "request_beyond_end", "input_tick_while_own_wakeup_pending", "outer_tick_while_nested_wakeup_pending"],
    bounds="a nested child graph (real finish_subgraph + single_nested_graph_node) whose sampler reads node 0 passively and re-schedules itself NNS times by symbolic deltas; an input-driven node that also schedules itself by a symbolic delta on every input tick (re-arm branch of node.cpp) reading node 0; KNODES self-scheduling source nodes, each evaluated at most JEVALS+1 times, each re-scheduling by a symbolic delta in [0,DMAX] us (0 = no request); "
           "start offset symbolic in [0,1000] us after MIN_ST; window length symbolic in [1,WMAX] us",
    outside="more nodes/evaluations; push-driven simulation; max_consecutive_immediate_cycles guard; SingleShotScheduler with more than one outstanding request",
    )

_NF_REACH = ["end", "no_failure", "failure_captured", "failure_at_child_node_0", "failure_at_child_node_k",
             "failure_before_registering_wakeup", "failure_after_registering_wakeup", "two_failures_in_different_cycles",
             "several_child_nodes_due_in_failing_cycle", "failure_in_cycle_driven_by_outer_tick", "failure_in_cycle_driven_by_child_wakeup_only",
             "failure_in_start_cycle", "cycle_after_failure", "earlier_node_wakeup_pending_across_failure", "later_node_wakeup_pending_across_failure",
             "wakeup_requested_by_failing_evaluation", "wakeup_requested_after_failure", "pending_wakeup_due_one_tick_after_failure",
             "pending_wakeup_due_in_next_cycle_after_failure", "wakeup_due_in_cycle_cut_short_before_requester",
             "outer_wakeup_pending_across_child_failure", "request_beyond_end", "three_cycles"]
reg("C02",
    name="C02_nested_fail", src="harness/C02_nested_fail.cpp",
    anchor_files=["src/hgraph/runtime/try_except_node.cpp", "src/hgraph/runtime/graph.cpp", "src/hgraph/runtime/nested_graph_node.cpp", "src/hgraph/runtime/node.cpp",
                  "src/hgraph/runtime/executor.cpp", "include/hgraph/runtime/node_scheduler.h"],
    quick=dict(defs=dict(J0=2, J1=1, JM=0, JT=1, JO=1, DMAX=2, WMAX=4, MAXFAIL=2, TEV=2, TMASK=15, ORDER_ENUM=1), symx=dict(shards=16, **{"max-wall": 900, "shard-depth": 10})),
    thorough=dict(defs=dict(J0=2, J1=1, JM=1, JT=2, JO=1, DMAX=2, WMAX=5, MAXFAIL=2, TEV=2, TMASK=15, ORDER_ENUM=1), symx=dict(shards=16, **{"max-wall": 3000, "shard-depth": 8})),
    reach=_NF_REACH,
    bounds="a four-node child graph wrapped by try/except (real wire_try_except with a hand-made WiredFn -> try_except_node) that keeps running after captured failures: "
           "root osrc (self-scheduling source, JO symbolic deltas) -> try_except(child) -> sink; child c0, c1 self-scheduling sources (J0 / J1 symbolic deltas), c2 driven by the "
           "boundary input (JM symbolic scheduler deltas), c3 driven by c0 and also self-scheduling (JT symbolic deltas), child node index = 0..3 (checked). Every delta symbolic "
           "in [0,DMAX] us (0 = no request). Each of the first TEV evaluations of each child node may throw, at most MAXFAIL throws per run (every such set, enumerated lazily); "
           "per failure enumerated: thrown before / after the evaluation registered its wake-up. Start offset symbolic in [0,1000] us, window symbolic in [1,WMAX] us. "
           "Requests are classified against the observed failures: pending across a failure of a later / an earlier child node, requested by the failing evaluation, requested "
           "after a failure, at or after a failure raised by the runtime itself; each class has its own assertion id",
    outside="map_ / switch_ / mesh children with error capture (same graph.cpp cycle but their own child-schedule queues); per-node error capture inside the child (C15); "
            "failures during start/stop; more than MAXFAIL failures; nodes that write their output before throwing; deeper nesting; real-time executor",
    )

reg("C02",
    name="C02_nested_fail_rearm", src="harness/C02_nested_fail.cpp",
    anchor_files=["src/hgraph/runtime/try_except_node.cpp", "src/hgraph/runtime/graph.cpp", "src/hgraph/runtime/nested_graph_node.cpp", "src/hgraph/runtime/node.cpp",
                  "include/hgraph/runtime/node_scheduler.h"],
    quick=dict(defs=dict(J0=1, J1=0, JM=1, JT=2, JO=1, DMAX=2, WMAX=4, MAXFAIL=1, TEV=2, TMASK=6, ORDER_ENUM=0), symx=dict(shards=16, **{"max-wall": 900, "shard-depth": 10})),
    thorough=dict(defs=dict(J0=2, J1=1, JM=2, JT=2, JO=1, DMAX=2, WMAX=5, MAXFAIL=1, TEV=2, TMASK=7, ORDER_ENUM=0), symx=dict(shards=16, **{"max-wall": 3000, "shard-depth": 8})),
    reach=["end", "no_failure", "failure_captured", "failure_at_child_node_k", "failure_after_registering_wakeup", "several_child_nodes_due_in_failing_cycle",
           "failure_in_cycle_driven_by_outer_tick", "failure_in_cycle_driven_by_child_wakeup_only", "failure_in_start_cycle", "cycle_after_failure",
           "earlier_node_wakeup_pending_across_failure", "later_node_wakeup_pending_across_failure", "wakeup_requested_by_failing_evaluation",
           "wakeup_requested_after_failure", "wakeup_due_in_cycle_cut_short_before_requester", "wakeup_requested_after_own_wakeup_fell_in_cut_short_cycle",
           "request_beyond_end", "three_cycles"],
    bounds="the graph of C02_nested_fail with the input-driven child nodes using their scheduler more: c0 J0 requests, c1 J1, c2 (driven by the boundary input) JM requests, "
           "c3 (driven by c0) JT requests, outer source JO; at most MAXFAIL throws among the first TEV evaluations of the child nodes in TMASK (quick: c1, c2), thrown after the "
           "evaluation registered its wake-up; all deltas symbolic in [0,DMAX] us, start offset in [0,1000] us, window in [1,WMAX] us",
    outside="see C02_nested_fail",
    )

META = dict(
    level="bounded symbolic model checking of the simulation executor loop (executor.cpp simulation_run_impl, graph.cpp evaluate_impl/schedule_node_impl, node.cpp, node_scheduler.h) "
          "with all wake-up deltas, the start time and the window length symbolic; C02_nested_fail: the same for wake-ups inside a try_except-wrapped child graph that "
          "keeps running after captured failures (try_except_node.cpp, graph.cpp nested evaluate_impl / schedule propagation), the set of throwing evaluations enumerated",
    note="bounds in evidence coverage.harnesses[*].bounds",
)

reg("C02",
    name="C02_sim", src="harness/C02_sim.cpp",
    anchor_files=["src/hgraph/runtime/executor.cpp", "src/hgraph/runtime/graph.cpp", "src/hgraph/runtime/node.cpp", "include/hgraph/runtime/node_scheduler.h"],
    quick=dict(defs=dict(KNODES=2, JEVALS=2, DMAX=2, WMAX=4, NDD=1, NNS=1), symx=dict(shards=16, **{"max-wall": 900, "shard-depth": 10})),
    thorough=dict(defs=dict(KNODES=2, JEVALS=2, DMAX=3, WMAX=5, NDD=2, NNS=2), symx=dict(shards=16, **{"max-wall": 3000, "shard-depth": 8})),
    reach=["end", "three_cycles", "request_beyond_end", "input_tick_while_own_wakeup_pending", "outer_tick_while_nested_wakeup_pending"],
    bounds="a nested child graph (real finish_subgraph + single_nested_graph_node) whose sampler reads node 0 passively and re-schedules itself NNS times by symbolic deltas; an input-driven node that also schedules itself by a symbolic delta on every input tick (re-arm branch of node.cpp) reading node 0; KNODES self-scheduling source nodes, each evaluated at most JEVALS+1 times, each re-scheduling by a symbolic delta in [0,DMAX] us (0 = no request); "
           "start offset symbolic in [0,1000] us after MIN_ST; window length symbolic in [1,WMAX] us",
    outside="more nodes/evaluations; push-driven simulation; max_consecutive_immediate_cycles guard; SingleShotScheduler with more than one outstanding request",
    )

META = dict(
    level="bounded symbolic model checking of the simulation executor loop (executor.cpp simulation_run_impl, graph.cpp evaluate_impl/schedule_node_impl, node.cpp, node_scheduler.h) "
          "with all wake-up deltas, the start time and the window length symbolic",
    note="bounds in evidence coverage.harnesses[*].bounds",
)

reg("C18",
    name="C18_sched_unit", src="harness/C18_sched_unit.cpp", runtime=False,
    anchor_files=["include/hgraph/runtime/node_scheduler.h"],
    quick=dict(defs=dict(NOPS=3, KMAX=3), symx=dict(shards=16, **{"max-wall": 600})),
    thorough=dict(defs=dict(NOPS=4, KMAX=4), symx=dict(shards=16, **{"max-wall": 3000, "shard-depth": 8})),
    reach=["end", "accepted_future", "accepted_now_before_start", "ignored_past_or_now", "tag_replaced", "pop_existing_tag", "advance_consumes_due"],
    bounds="NOPS scheduler operations from {schedule(abs), schedule(delta), un_schedule(tag), un_schedule(), pop_tag, reset, fire+advance, skip+advance, no-op}; "
           "tags {none,'a','b'}; requested offsets symbolic in [-2,KMAX] around now; base time symbolic in [0,1e6] us after MIN_ST; started/not-started enumerated",
    outside="more than NOPS operations; more than two tag names; wall-clock alarms (C17)",
    assumptions=["NodeScheduler is driven directly over a NodeSchedulerState with graph == nullptr (the graph slot is covered by C18_sched_graph)"],
    )

META = dict(
    level="bounded symbolic model checking of NodeScheduler (node_scheduler.h) against a mirror model: every operation sequence up to the bound, all requested times symbolic",
    note="bounds and what lies outside them are in evidence coverage.harnesses[*].bounds/outside; unit level drives the header-only scheduler with graph==nullptr",
)

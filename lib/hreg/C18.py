reg("C18",
    name="C18_sched_unit", src="harness/C18_sched_unit.cpp", runtime=False,
    anchor_files=["include/hgraph/runtime/node_scheduler.h"],
    quick=dict(defs=dict(NOPS=3, KMAX=3), symx=dict(shards=16, **{"max-wall": 600})),
    thorough=dict(defs=dict(NOPS=4, KMAX=4), symx=dict(shards=16, **{"max-wall": 3000, "shard-depth": 8})),
    reach=["end", "accepted_future", "accepted_now_before_start", "ignored_past_or_now", "tag_replaced", "pop_existing_tag", "advance_consumes_due"],
    bounds="NOPS scheduler operations from {schedule(abs), schedule(delta), un_schedule(tag), un_schedule(), pop_tag, reset, fire+advance, skip+advance, no-op}; "
           "tags {none,'a','b'}; requested offsets symbolic in [-2,KMAX] around now; base time symbolic in [0,1e6] us after MIN_ST; started/not-started enumerated",
    outside="more than NOPS operations; more than two tag names; wall-clock alarms (C17)",
    assumptions=["NodeScheduler is driven directly over a NodeSchedulerState with graph == nullptr (the graph slot is covered by C18_sched_graph)"],
    )
reg("C18",
    name="C18_sched_graph", src="harness/C18_sched_graph.cpp",
    anchor_files=["include/hgraph/runtime/node_scheduler.h", "src/hgraph/runtime/node.cpp", "src/hgraph/runtime/graph.cpp", "include/hgraph/types/static_node.h"],
    quick=dict(defs=dict(NEVALS=2, OPS_PER_EVAL=2, OPS_LATER=1, KMAX=3, WIN=6), symx=dict(shards=16, **{"max-wall": 900, "shard-depth": 8})),
    thorough=dict(defs=dict(NEVALS=3, OPS_PER_EVAL=2, OPS_LATER=1, KMAX=3, WIN=8), symx=dict(shards=16, **{"max-wall": 3000, "shard-depth": 8})),
    reach=["end", "three_evals", "tag_replaced", "cancel_tag", "cancel_earliest", "ignored_past_or_now"],
    bounds="a scripted node performs OPS_PER_EVAL scheduler actions in its first and OPS_LATER in each later one of its first NEVALS evaluations, actions from {schedule(delta, none/a/b), un_schedule(), "
           "un_schedule(a/b), pop_tag(a/b), reset, nothing}; deltas symbolic in [-1,KMAX]; its input ticks twice with a symbolic period in [1,KMAX]; a second "
           "scheduler node runs beside it; window WIN us",
    outside="more evaluations/actions; wall-clock alarms; nested graphs (C09)",
    )

# --- appended by the C01/C03 author: native-callback node (readiness gate + scheduler tail of node.cpp evaluate_impl)
reg("C18",
    name="C18_sched_native", src="harness/C18_sched_native.cpp",
    anchor_files=["include/hgraph/runtime/node_scheduler.h", "src/hgraph/runtime/node.cpp", "src/hgraph/runtime/graph.cpp", "include/hgraph/runtime/node.h"],
    quick=dict(defs=dict(NEMIT=2, OMAX=2, GMAX=2, DMAX=4, RDMAX=2), symx=dict(shards=16, **{"max-wall": 900})),
    thorough=dict(defs=dict(NEMIT=2, OMAX=3, GMAX=3, DMAX=6, RDMAX=3), symx=dict(shards=16, **{"max-wall": 3000, "shard-depth": 8})),
    reach=["end", "request_fired_while_not_ready", "notified_while_not_ready_before_pending_time", "second_request_from_run", "three_cycles"],
    bounds='a NATIVE-callback compute node (NodeBuilder::native; readiness decided by node.cpp ready_to_evaluate from valid_inputs={a,b}) with inputs a (active) and b (passive or active, enumerated), both required, and a NodeScheduler: one wake-up requested in start() at start+d0 (d0 symbolic in [1,DMAX] us) and one in the first run at now+rd (rd symbolic in [0,RDMAX], 0 = none); sources a and b each emit 0..NEMIT values (count enumerated): first at start+off (off symbolic in [0,OMAX]), later ones after symbolic gaps in [1,GMAX]; payloads symbolic in [-1000,1000]; run window OMAX+GMAX*(NEMIT-1)+DMAX+RDMAX+2 us',
    outside='more emissions/requests; tagged requests and cancel operations on a native node (static-node versions: C03_gate variant 4, C18_sched_graph); all_valid_inputs and more than two inputs on a native node; native nodes inside nested graphs; real-time executor',
    assumptions=["the scheduler is probed between cycles through the node's NodeSchedulerState (NodeView::scheduler_state captured in start) with a detached NodeScheduler view",
                 "the native node is wired with Wiring::add_node over the un-named TSB {a,b} input schema (hk/hk_native.h), its sources and sink are static nodes"],
    )

META = dict(
    level="bounded symbolic model checking of NodeScheduler (node_scheduler.h) against a mirror model of the pending requests - unit level (all operation "
          "sequences up to the bound, all requested times symbolic) and inside a real graph (node.cpp evaluate_impl re-arm/advance, graph.cpp schedule slot)",
    note="known finding O1 (wake at a cancelled time) is listed in known_findings.jsonl and printed as KNOWN-FINDING; bounds in evidence coverage.harnesses[*].bounds",
)

_ANCH = ["src/hgraph/runtime/reduce_node.cpp", "include/hgraph/runtime/reduce_node.h", "src/hgraph/runtime/reduce_output_binding.h",
         "include/hgraph/lib/std/operators/impl/higher_order_impl.h", "src/hgraph/lib/std/operators/higher_order_impl.cpp",
         "include/hgraph/runtime/nested_bindings.h"]
# configuration tuples {COLL (0 TSD, 1 fixed TSL, 2 dynamic TSL), NKEYS, BULK, NCYC, EXTRA_OPS, ORDERS}; one binary, configuration enumerated first
_QUICK = "{0,3,0,3,0,2},{0,2,4,3,0,1},{0,2,0,3,1,1},{1,3,2,3,0,1},{2,3,2,3,0,1}"
_THOROUGH = "{0,3,0,4,0,1},{0,2,7,3,0,1},{0,1,8,4,0,1},{0,2,0,4,1,1},{1,4,5,3,0,2},{2,4,5,3,0,2}"
reg("C11",
    name="C11_reduce", src="harness/C11_reduce.cpp", anchor_files=_ANCH,
    quick=dict(defs=dict(CONFIGS=_QUICK, TSLN=5, ZMODES=3), symx=dict(shards=16, **{"max-wall": 900, "query-timeout-ms": 120000})),
    thorough=dict(defs=dict(CONFIGS=_THOROUGH, TSLN=9, ZMODES=3), symx=dict(shards=16, **{"max-wall": 3000, "shard-depth": 8, "query-timeout-ms": 120000})),
    reach=["end", "key_removed", "removed_while_lower_key_live", "key_removed_and_readded_same_cycle", "shrunk_to_empty", "regrown_after_empty",
           "three_live", "five_live", "singleton_with_zero", "empty_again_with_zero", "phantom_key"],
    bounds="wire_reduce_tsd -> reduce_node with a wrapping-add combiner sub-graph; every element value and every zero value an unconstrained symbolic int64; "
           "zero modes {no zero, constant zero ticking in cycle 0, zero re-ticking with a fresh value every cycle}; result, validity and the value last "
           "delivered to a consumer checked after every engine cycle.  Enumerated configurations {collection, NKEYS, BULK, NCYC, EXTRA_OPS, ORDERS}: "
           "quick " + _QUICK + "; thorough " + _THOROUGH + ".  TSD<int,TS<int>> (collection 0): in each of NCYC cycles every one of NKEYS keys "
           "independently does {nothing, set (add/update), remove, erase+set in one cycle}, with EXTRA_OPS also {create the key without a value, add+remove "
           "in one cycle}; a group of BULK further keys is added/updated/removed as a unit (tree growth over the capacity boundaries 2->4->8(->16), shrink "
           "to empty, regrow); keys applied ascending and (ORDERS=2) descending.  Fixed TSL<TS<int>,N> (1) and dynamic TSL<TS<int>> (2): every element "
           "independently ticks or not per cycle (elements become valid in every order, then update; the dynamic list grows on demand leaving invalid gaps)",
    outside="non-commutative / non-associative combiners; element schemas other than TS<int>; the lifted-kernel fast path (wire_lifted_reduce_tsl / "
            "evaluate_lifted_combiner: a LiftedKernel needs the operator registry); ordered_reduce_node and reduce_tsl_wire (the ORDERED form with its "
            "different zero contract; needs the 'default' operator); a zero that is not yet valid; re-pointed (REF) collection or zero sources; combiner "
            "graphs that schedule themselves; pause/resume under mesh; list elements becoming invalid again (no public API)",
    assumptions=["erase+set of a live key within one engine cycle is netted by the source dictionary (documented slot protocol): the reduce node sees an update"],
    )

META = dict(
    level="bounded symbolic model checking of the associative reduce runtime (wire_reduce_tsd -> reduce_node: leaf reconciliation, incremental combiner tree, "
          "bank swap on growth, zero/no-zero contract, root publication) with all element and zero values symbolic: the result is proven equal to the "
          "fold of exactly the live valid elements for every enumerated add/update/remove history over TSD, fixed TSL and dynamic TSL",
    note="bounds in evidence coverage.harnesses[*].bounds; see notes/C11.md",
)

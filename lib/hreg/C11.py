_ANCH = ["src/hgraph/runtime/reduce_node.cpp", "include/hgraph/runtime/reduce_node.h", "src/hgraph/runtime/reduce_output_binding.h",
         "include/hgraph/lib/std/operators/impl/higher_order_impl.h", "src/hgraph/lib/std/operators/higher_order_impl.cpp",
         "include/hgraph/runtime/nested_bindings.h"]
_SRC = "harness/C11_reduce.cpp"
_COMMON = ("every element value and every zero value is an unconstrained symbolic int64 (combiner = wrapping add sub-graph); zero modes {no zero, "
           "constant zero ticking in cycle 0, zero re-ticking with a fresh value every cycle}; checked after every engine cycle")
_OUT = ("non-commutative / non-associative combiners; element schemas other than TS<int>; the lifted-kernel fast path (wire_lifted_reduce_tsl, "
        "evaluate_lifted_combiner: needs the operator registry); ordered_reduce_node and reduce_tsl_wire (ordered form, needs the 'default' operator); "
        "a zero that is still invalid; collection input re-pointing (REF sources); combiner graphs that schedule themselves; pause/resume (mesh)")
_TSD_REACH = ["end", "key_removed", "removed_while_lower_key_live", "key_removed_and_readded_same_cycle", "shrunk_to_empty", "regrown_after_empty",
              "three_live", "singleton_with_zero", "empty_again_with_zero"]

reg("C11",
    name="C11_reduce_tsd", src=_SRC, anchor_files=_ANCH,
    quick=dict(defs=dict(COLL=0, NKEYS=3, BULK=0, NCYC=3, ZMODES=3, ORDERS=2, EXTRA_OPS=0), symx=dict(shards=16, **{"max-wall": 900})),
    thorough=dict(defs=dict(COLL=0, NKEYS=3, BULK=0, NCYC=4, ZMODES=3, ORDERS=1, EXTRA_OPS=0), symx=dict(shards=16, **{"max-wall": 3000, "shard-depth": 8})),
    reach=_TSD_REACH,
    bounds="TSD<int,TS<int>> source over keys {0..NKEYS-1}, NCYC engine cycles; in every cycle every key independently does one of {nothing, set (add or update), "
           "remove, remove+re-add in the same cycle} (all combinations enumerated), keys applied in ascending or descending order (ORDERS); " + _COMMON,
    outside=_OUT + "; more than NKEYS keys / NCYC cycles (see C11_reduce_tsd_grow for growth over capacity boundaries)",
    )
reg("C11",
    name="C11_reduce_tsd_grow", src=_SRC, anchor_files=_ANCH,
    quick=dict(defs=dict(COLL=0, NKEYS=2, BULK=4, NCYC=3, ZMODES=3, ORDERS=1, EXTRA_OPS=0), symx=dict(shards=16, **{"max-wall": 900})),
    thorough=dict(defs=dict(COLL=0, NKEYS=2, BULK=7, NCYC=4, ZMODES=3, ORDERS=1, EXTRA_OPS=0), symx=dict(shards=16, **{"max-wall": 3000, "shard-depth": 8})),
    reach=_TSD_REACH[:2] + _TSD_REACH[3:6] + ["five_live", "singleton_with_zero", "empty_again_with_zero"],
    bounds="as C11_reduce_tsd over NKEYS individually scripted keys plus a group of BULK further keys that is added / updated / removed as a unit, so that the "
           "combiner tree grows over its capacity boundaries 2 -> 4 -> 8 (-> 16 in thorough: 9 keys) leaves (bank swap), shrinks to empty and regrows; " + _COMMON,
    outside=_OUT,
    )
reg("C11",
    name="C11_reduce_tsd_phantom", src=_SRC, anchor_files=_ANCH,
    quick=dict(defs=dict(COLL=0, NKEYS=2, BULK=0, NCYC=3, ZMODES=3, ORDERS=1, EXTRA_OPS=1), symx=dict(shards=16, **{"max-wall": 900})),
    thorough=dict(defs=dict(COLL=0, NKEYS=3, BULK=0, NCYC=3, ZMODES=3, ORDERS=1, EXTRA_OPS=1), symx=dict(shards=16, **{"max-wall": 3000, "shard-depth": 8})),
    reach=["end", "phantom_key", "key_removed", "singleton_with_zero"],
    bounds="as C11_reduce_tsd, and an absent key may also be created WITHOUT a value (a live key whose element is invalid must not take part in the fold) or be "
           "added and removed within one cycle; " + _COMMON,
    outside=_OUT,
    )
reg("C11",
    name="C11_reduce_tsl", src=_SRC, anchor_files=_ANCH,
    quick=dict(defs=dict(COLL=1, NKEYS=3, BULK=2, NCYC=3, ZMODES=3, ORDERS=1), symx=dict(shards=16, **{"max-wall": 900})),
    thorough=dict(defs=dict(COLL=1, NKEYS=4, BULK=5, NCYC=3, ZMODES=3, ORDERS=2), symx=dict(shards=16, **{"max-wall": 3000, "shard-depth": 8})),
    reach=["end", "three_live", "five_live", "singleton_with_zero"],
    bounds="fixed TSL<TS<int>, NKEYS+BULK> source; in every cycle every one of the first NKEYS elements independently ticks or not, the remaining BULK "
           "elements tick together or not (all combinations enumerated): elements become valid in every order and are updated afterwards; " + _COMMON,
    outside=_OUT + "; list elements cannot become invalid again (no public API), so shrinking is covered for TSD only",
    )
reg("C11",
    name="C11_reduce_dtsl", src=_SRC, anchor_files=_ANCH,
    quick=dict(defs=dict(COLL=2, NKEYS=3, BULK=2, NCYC=3, ZMODES=3, ORDERS=1), symx=dict(shards=16, **{"max-wall": 900})),
    thorough=dict(defs=dict(COLL=2, NKEYS=4, BULK=5, NCYC=3, ZMODES=3, ORDERS=2), symx=dict(shards=16, **{"max-wall": 3000, "shard-depth": 8})),
    reach=["end", "three_live", "five_live", "singleton_with_zero"],
    bounds="dynamic TSL<TS<int>> source that grows on demand (an element index beyond the current size extends the list, leaving invalid elements in between); "
           "tick pattern as C11_reduce_tsl; " + _COMMON,
    outside=_OUT,
    )

META = dict(
    level="bounded symbolic model checking of the associative reduce runtime (wire_reduce_tsd -> reduce_node: leaf reconciliation, incremental combiner tree, "
          "bank swap on growth, zero/no-zero contract, root publication) with all element and zero values symbolic: the result is proven equal to the "
          "fold of exactly the live valid elements for every enumerated add/update/remove history",
    note="bounds in evidence coverage.harnesses[*].bounds; see notes/C11.md",
)

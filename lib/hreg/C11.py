_ANCH = ["src/hgraph/runtime/reduce_node.cpp", "include/hgraph/runtime/reduce_node.h", "src/hgraph/runtime/reduce_output_binding.h",
         "include/hgraph/lib/std/operators/impl/higher_order_impl.h", "src/hgraph/lib/std/operators/higher_order_impl.cpp",
         "include/hgraph/runtime/nested_bindings.h"]
# configuration tuples {COLL (0 TSD, 1 fixed TSL, 2 dynamic TSL), NKEYS, BULK, NCYC, EXTRA_OPS, ORDERS}; one binary, configuration enumerated first
_QUICK = "{0,3,0,3,0,2},{0,2,4,3,0,1},{0,2,0,3,1,1},{1,3,2,3,0,1},{2,3,2,3,0,1}"
_THOROUGH = "{0,3,0,4,0,1},{0,2,7,3,0,1},{0,1,8,4,0,1},{0,2,0,4,1,1},{1,4,5,3,0,2},{2,4,5,3,0,2}"
reg("C11",
    name="C11_reduce", src="harness/C11_reduce.cpp", anchor_files=_ANCH,
    quick=dict(defs=dict(CONFIGS=_QUICK, TSLN=5, ZMODES=3), symx=dict(shards=16, **{"max-wall": 900, "query-timeout-ms": 120000})),
    thorough=dict(defs=dict(CONFIGS=_THOROUGH, TSLN=9, ZMODES=3), symx=dict(shards=16, **{"max-wall": 3000, "shard-depth": 8, "query-timeout-ms": 120000})),
    reach=["end", "key_removed", "removed_while_lower_key_live", "key_removed_and_readded_same_cycle", "shrunk_to_empty", "regrown_after_empty",
           "three_live", "five_live", "singleton_with_zero", "empty_again_with_zero", "phantom_key"],
    bounds="wire_reduce_tsd -> reduce_node with a wrapping-add combiner sub-graph; every element value and every zero value an unconstrained symbolic int64; "
           "zero modes {no zero, constant zero ticking in cycle 0, zero re-ticking with a fresh value every cycle}; result, validity and the value last "
           "delivered to a consumer checked after every engine cycle.  Enumerated configurations {collection, NKEYS, BULK, NCYC, EXTRA_OPS, ORDERS}: "
           "quick " + _QUICK + "; thorough " + _THOROUGH + ".  TSD<int,TS<int>> (collection 0): in each of NCYC cycles every one of NKEYS keys "
           "independently does {nothing, set (add/update), remove, erase+set in one cycle}, with EXTRA_OPS also {create the key without a value, add+remove "
           "in one cycle}; a group of BULK further keys is added/updated/removed as a unit (tree growth over the capacity boundaries 2->4->8(->16), shrink "
           "to empty, regrow); keys applied ascending and (ORDERS=2) descending.  Fixed TSL<TS<int>,N> (1) and dynamic TSL<TS<int>> (2): every element "
           "independently ticks or not per cycle (elements become valid in every order, then update; the dynamic list grows on demand leaving invalid gaps)",
    outside="non-commutative / non-associative combiners; element schemas other than TS<int>; the lifted-kernel fast path (wire_lifted_reduce_tsl / "
            "evaluate_lifted_combiner: a LiftedKernel needs the operator registry); ordered_reduce_node and reduce_tsl_wire (the ORDERED form with its "
            "different zero contract; needs the 'default' operator); a zero that is not yet valid; re-pointed (REF) collection or zero sources; combiner "
            "graphs that schedule themselves; pause/resume under mesh; list elements becoming invalid again (no public API)",
    assumptions=["erase+set of a live key within one engine cycle is netted by the source dictionary (documented slot protocol): the reduce node sees an update"],
    )

# ---- C11_wide: reductions over more than 64 live elements (second..fourth word of the combiner-position bitmap) ----
# configuration tuples {COLL, NLO, NHI, GROW (0 one cycle, 1 one cycle per capacity boundary, 2 one key per cycle, 3 three keys then N), M, ORDER}
_WQUICK = "{0,65,67,0,40,0},{0,66,67,1,40,1},{0,66,66,2,45,0},{0,66,66,3,33,0},{2,66,67,1,40,0},{1,70,70,0,40,0},{0,132,132,1,50,0}"
_WTHOROUGH = ("{0,65,70,0,40,0},{0,65,70,0,40,1},{0,65,70,1,40,0},{0,65,70,1,33,1},{0,65,70,2,45,0},{0,65,70,3,33,0},{0,65,70,3,50,1},"
              "{2,65,70,0,40,0},{2,65,70,1,40,0},{2,65,70,2,40,0},{1,65,70,0,40,0},{1,65,70,1,40,0},"
              "{0,129,134,0,50,0},{0,129,134,1,40,1},{0,132,133,3,60,0},{2,129,134,1,40,0},{1,132,134,0,40,0}")
reg("C11",
    name="C11_wide", src="harness/C11_wide.cpp", anchor_files=_ANCH + ["include/hgraph/types/utils/slot_bitmap.h"],
    quick=dict(defs=dict(CONFIGS=_WQUICK, TSLW=73, ZLIST="0,2", NPAT=7, NRM=4, NSHR=2),
               symx=dict(shards=16, **{"max-wall": 900, "shard-depth": 4, "query-timeout-ms": 120000})),
    thorough=dict(defs=dict(CONFIGS=_WTHOROUGH, TSLW=137, ZLIST="0,1,2", NPAT=7, NRM=4, NSHR=3),
                  symx=dict(shards=16, **{"max-wall": 3000, "shard-depth": 4, "query-timeout-ms": 120000})),
    reach=["end", "over_64_live", "over_128_live", "grown_over_64_in_one_cycle", "grown_incrementally_across_64", "grown_skipping_capacities",
           "tick_under_second_word_combiner", "tick_under_third_or_fourth_word_combiner", "ticks_under_deepest_combiners_of_two_words_same_cycle",
           "ticks_under_positions_64w_minus_1_and_64w", "every_element_ticks", "nontail_key_removed_over_64",
           "nontail_key_removed_and_new_key_added_same_cycle", "nontail_key_removed_and_other_key_updated_same_cycle",
           "two_nontail_keys_removed_same_cycle", "shrunk_to_exactly_64_in_wide_tree", "shrunk_below_64",
           "tick_under_second_word_after_shrink_below_64", "deep_tick_and_structural_change_same_cycle", "survivor_erased_and_set_in_shrink_cycle",
           "singleton_with_zero_in_wide_tree", "zero_reticks_for_singleton_in_wide_tree", "shrunk_to_empty_from_wide", "regrown_over_64_after_empty",
           "tick_under_second_word_after_regrow", "wide_list_grows_leaving_gaps", "idle_cycle"],
    bounds="wire_reduce_tsd -> reduce_node with a wrapping-add combiner sub-graph over MORE THAN 64 live elements (leaf capacity 128 and 256: combiner "
           "positions 64..254, i.e. the second to fourth word of the per-cycle candidate bitmap); every element value and every zero value an unconstrained "
           "symbolic int64; result, validity and the value last delivered to a consumer checked after every engine cycle.  One scripted history per path.  "
           "TSD<int,TS<int>>: grow to N keys (GROW 0: in one cycle; 1: one cycle per capacity boundary 1,2,3,5,9,17,33,64,65(,128,129),N; 2: one key per "
           "cycle; 3: three keys, then N), keys ascending or descending -> tick one of 6 (7 at capacity 256) leaf patterns placed around the bitmap word "
           "boundary (first bit of the top word alone; positions 64w-1 and 64w; lowest deepest position + tail; last leaf of the left half + first of the "
           "right half; both children of one deep combiner + neighbour; every element; one deepest position in each of three words) -> remove a non-tail "
           "key (alone | and add a new key | and update another key | two keys) -> shrink to M < 64 in one cycle (head leaves | tail leaves | every other "
           "leaf) with an erase+set of a survivor -> tick the pattern again (capacity is monotonic) -> shrink to one key -> idle cycle (only a re-ticking "
           "zero ticks) -> shrink to empty -> regrow to N in one cycle (same keys, incremental structural rebuild in the wide tree) -> tick the pattern "
           "again.  Fixed TSL<TS<int>,TSLW> and dynamic TSL<TS<int>>: grow (same schedules, ascending) -> pattern -> next pattern (the dynamic list "
           "also grows by three elements, two of them invalid) -> idle -> every element ticks.  Enumerated: configuration {collection, NLO, NHI, GROW, M, "
           "ORDER}, N in NLO..NHI, zero mode, pattern, removal variant, shrink style: quick " + _WQUICK + " with zero modes {none, re-ticking every "
           "cycle}, shrink styles {head, tail}; thorough " + _WTHOROUGH + " with zero modes {none, constant, re-ticking}, all three shrink styles",
    outside="more than 134 live elements (leaf capacity 512 and above: more than four bitmap words); everything listed as outside for C11_reduce "
            "(non-commutative combiners, lifted-kernel fast path, ordered reduce, self-scheduling combiner graphs [the full-scan branch of "
            "prepare_reduce_evaluation_positions], pause/resume under mesh, REF re-pointing); per-key free scripting at this width (done by C11_reduce "
            "up to 9 leaves): here one scripted history per enumerated choice tuple",
    assumptions=["erase+set of a live key within one engine cycle is netted by the source dictionary (documented slot protocol): the reduce node sees an update",
                 "reach labels that name combiner positions are computed from a harness-side mirror of the node's dense leaf order (append on add, tail "
                 "leaf moves into a removed leaf's place); the oracle does not use the mirror"],
    )

META = dict(
    level="bounded symbolic model checking of the associative reduce runtime (wire_reduce_tsd -> reduce_node: leaf reconciliation, incremental combiner tree, "
          "bank swap on growth, zero/no-zero contract, root publication) with all element and zero values symbolic: the result is proven equal to the "
          "fold of exactly the live valid elements for every enumerated add/update/remove history over TSD, fixed TSL and dynamic TSL; "
          "C11_wide repeats it for scripted histories over 65..70 and 132 (thorough 129..134) live elements, where the per-cycle candidate bitmap "
          "of combiner positions spans two to four 64-bit words",
    note="bounds in evidence coverage.harnesses[*].bounds; see notes/C11.md",
)

_ANCH = ["src/hgraph/types/graph_wiring.cpp", "include/hgraph/types/graph_wiring.h", "src/hgraph/runtime/graph.cpp", "include/hgraph/runtime/graph.h",
         "src/hgraph/runtime/nested_graph_node.cpp", "include/hgraph/types/subgraph_wiring.h"]
_PROG = ("wiring programs of NNODES statements over {scripted source (at most MAXSRC), 1-input compute node, 2-input compute node, and - as the last statement - a "
         "3-input compute node whose inputs may repeat a port}, node 0 a source, every input chosen among the earlier statements' ports (all choices enumerated; "
         "2-input: in0<in1, 3-input: in0<=in1<=in2), multi-input nodes wired either directly or through one TSL<TS<Int>,2|3> structural source (so also a TSL "
         "with a repeated element and TSL elements at different depths below a common source); programs with a 3-input node are combined with the extras "
         "none / one rank dependency only; plus exactly one extra from: none / stdlib::feedback loop F=add2(x,fb()), fb(F) / one add_rank_dependency(a,b) / "
         "a nested child graph {A=add1(x); B=add2(A,y)} owned by a single_nested_graph_node and read by C=add1(nested) / a REF pass-through R=ref_copy(x) read by C=add1(R) / "
         "(C01_eval only) a child graph {A=add1(x); B=add2(x,A)} wrapped by the real wire_try_except whose B throws in one enumerated evaluation (error captured, run continues)")

reg("C01",
    name="C01_rank", src="harness/C01_rank.cpp",
    anchor_files=_ANCH,
    quick=dict(defs=dict(NNODES=4, MAXSRC=2), symx=dict(shards=16, **{"max-wall": 900})),
    thorough=dict(defs=dict(NNODES=5, MAXSRC=2), symx=dict(shards=16, **{"max-wall": 3000, "shard-depth": 8})),
    reach=["end", "cyclic_rejected", "rank_dependency_reorders_statements", "nested_child_checked", "feedback_compiled", "push_source_declared_last",
           "rank_free_pair_compiled", "cyclic_rank_free_pair", "ref_pass_through", "tsl_structural_source", "same_producer_read_twice",
           "tsl_elements_two_levels_apart"],
    bounds=_PROG + "; rank dependencies between ANY two statements (also self, also closing a cycle with data edges or with each other), additionally: two rank "
           "dependencies (all ordered pairs of pairs for NNODES<=4, chains a2->a1->b1 for NNODES=5) / a push source declared last / a pair node whose second input is declared rank_dependency=false while its source is rank-constrained after it "
           "(the shared-output relay pattern of graph_wiring.h). No execution: the compiled GraphBuilder (and the nested child's) is inspected",
    outside="more than NNODES statements; more than one extra per program (except the two rank dependencies); TSD structural sources (TSB and partial TSB/TSL structural "
            "sources: C01_struct_rank / C01_struct_eval); service/adaptor rank contracts "
            "(apply_service_rank_dependencies, same-cycle pair validation beyond the plain rank dependency); programs only expressible through the operator layer; "
            "map_/switch_/reduce children",
    assumptions=["node identity in the compiled graph is read back from the per-node 'id' scalar (NodeBuilder::scalars); runtime nodes without one (feedback source/sink, "
                 "nested owner, push source, pair) are identified by schema name / kind",
                 "the nested extra is wired through hk/hk_nested.h, a mirror of subgraph_wiring.h nested_<G> (whose template body crashes clang 14)"],
    )

reg("C01",
    name="C01_eval", src="harness/C01_eval.cpp",
    anchor_files=_ANCH,
    quick=dict(defs=dict(NNODES=4, MAXSRC=2, NCYC=2), symx=dict(shards=16, **{"max-wall": 900})),
    thorough=dict(defs=dict(NNODES=4, MAXSRC=2, NCYC=3), symx=dict(shards=16, **{"max-wall": 3000, "shard-depth": 8})),
    reach=["end", "fan_in_with_unequal_depth", "both_inputs_ticked_in_one_cycle", "rank_dependency_reorders_statements", "nested_child_evaluated",
           "feedback_loop_ran", "read_through_reference_after_first_cycle", "tsl_structural_source", "same_producer_read_twice",
           "tsl_elements_two_levels_apart", "child_cycle_after_captured_failure"],
    bounds=_PROG + " (only acyclic requests; rank dependencies only in the direction that contradicts statement order); run by the simulation executor for NCYC source "
           "cycles (+2 trailing), every source ticks or not in every cycle (all patterns enumerated), payloads symbolic in [-1000,1000]",
    outside="more than NNODES statements / NCYC cycles; nesting deeper than one level; push sources at run time; map_/switch_/reduce children (C10-C12); "
            "whether a node runs at all when it should (C03) and at which times cycles occur (C02)",
    assumptions=["the producer relation used by the order oracle is the harness's own description of the program it wired (who reads whom), not the compiled edge list",
                 "the nested extra is wired through hk/hk_nested.h, a mirror of subgraph_wiring.h nested_<G> (whose template body crashes clang 14)"],
    )

reg("C01",
    name="C01_eval_n5", src="harness/C01_eval.cpp", tiers=("thorough",),
    anchor_files=_ANCH,
    thorough=dict(defs=dict(NNODES=5, MAXSRC=1, NCYC=3), symx=dict(shards=16, **{"max-wall": 3000, "shard-depth": 8})),
    reach=["end", "fan_in_with_unequal_depth", "both_inputs_ticked_in_one_cycle", "rank_dependency_reorders_statements", "nested_child_evaluated",
           "feedback_loop_ran", "read_through_reference_after_first_cycle", "tsl_structural_source", "same_producer_read_twice",
           "tsl_elements_two_levels_apart", "child_cycle_after_captured_failure"],
    bounds=_PROG + " (only acyclic requests; rank dependencies only in the direction that contradicts statement order) with 5 statements and a single source; "
           "run by the simulation executor for 3 source cycles (+2 trailing), all tick patterns, payloads symbolic in [-1000,1000]",
    outside="as C01_eval; additionally: coincident ticks of independent sources at 5 statements",
    assumptions=["same harness source as C01_eval with larger program size (thorough tier only)"],
    )

_SPROG = ("base program of NNODES statements (node 0 a scripted source, every further statement a source (at most 2 in all) or add1 of any earlier statement) followed by ONE "
          "consumer with a bundle / fixed-list input wired from a PARTIAL structural source: shapes TSB{a,b} with the plain input x declared before it / after it / absent, "
          "TSL<TS,3> (+x), nested TSB{a, l: TSL<TS,2>, b} (+x); every leaf child is a null source or the port of a base statement (TSB{a,b}: any statement; larger shapes: "
          "first or last statement), all combinations incl. all-null, null before / between / after wired children, one producer in two children; for the nested shape the "
          "inner list is either a structural child with its own null leaves or ONE null source; x among the first 2 statements.  Initializer forms: positional brace list "
          "with explicit WiringPortRef::null_source children / named initializer listing only the wired fields, last field first (graph_wiring.h fills the gaps) / "
          "delayed_binding placeholders (TS<Int> for x, the structural schema for the bundle or list) from which the consumer and its reader D=add1(consumer) are wired BEFORE "
          "every producer and which are bound afterwards to the partial structural source / the partial structural source passed as an argument of a nested child graph "
          "(hk_nested.h, single_nested_graph_node) whose only node is the consumer, read by D=add1(nested)")
_SREACH = ["end", "null_child_before_wired_child", "null_child_before_child_from_compute_node", "consumer_would_precede_producer_without_edge_after_null",
           "named_partial_initializer_unlucky_order", "tsl_first_element_null_unlucky_order", "delayed_leaf_bound_to_null_before_wired_leaf",
           "nested_owner_would_precede_producer", "whole_inner_list_null_before_wired_field", "nested_inner_null_before_wired_element", "all_children_null",
           "wired_child_before_null_child", "same_producer_in_two_children", "partial_structural_source_as_nested_argument"]

reg("C01",
    name="C01_struct_rank", src="harness/C01_struct.cpp",
    anchor_files=_ANCH,
    quick=dict(defs=dict(NNODES=3, MAXSRC=2, RUN=0), symx=dict(shards=16, **{"max-wall": 900})),
    thorough=dict(defs=dict(NNODES=4, MAXSRC=2, RUN=0, XCH=3), symx=dict(shards=16, **{"max-wall": 3000, "shard-depth": 8})),
    reach=_SREACH + ["cycle_closed_by_child_after_null_rejected"],
    bounds=_SPROG + "; in the delayed form a child may also be bound to D, which closes a cycle through the partial structural source (must be rejected at finish).  No execution: "
           "the compiled GraphBuilder (and the nested child's) is inspected.  The label consumer_would_precede_producer_without_edge_after_null is decided by a harness-side "
           "Kahn ranking (ties by statement order) of the program with the edges of children that follow a null sibling removed",
    outside="more than NNODES base statements; 2-input base nodes, rank dependencies, feedback and REF extras combined with partial structural sources (C01_rank has them with fully "
            "wired TSL sources); REF<TSB>/REF<TSL> inputs (structural_ref node); TSD / dynamic TSL sources; partial structural OUTPUT of a sub-graph (structural_boundary_ordinal); "
            "nesting deeper than one level; map_/switch_/reduce children",
    assumptions=["node identity in the compiled graph is read back from the per-node 'id' scalar; the nested owner is identified by its schema name",
                 "the nested form is wired through hk/hk_nested.h, a mirror of subgraph_wiring.h nested_<G> (whose template body crashes clang 14), using the real boundary_shape"],
    )

reg("C01",
    name="C01_struct_eval", src="harness/C01_struct.cpp",
    anchor_files=_ANCH,
    quick=dict(defs=dict(NNODES=3, MAXSRC=2, NCYC=2, RUN=1), symx=dict(shards=16, **{"max-wall": 900})),
    thorough=dict(defs=dict(NNODES=3, MAXSRC=2, NCYC=3, RUN=1, XCH=3), symx=dict(shards=16, **{"max-wall": 3000, "shard-depth": 8})),
    reach=_SREACH + ["consumer_and_compute_producer_behind_null_ran_in_one_cycle", "unlucky_order_ran", "several_inputs_ticked_in_one_cycle", "nested_consumer_evaluated"],
    bounds=_SPROG + " (acyclic only; TSB{a,b} shapes are run in the positional and delayed forms, the nested shape in the named form - positional and named forms compile to the "
           "same builder, which C01_struct_rank checks); the static oracle of C01_struct_rank is repeated, then the graph is run by the simulation executor for NCYC source "
           "cycles (+2 trailing), every source ticks or not in every cycle (all patterns enumerated), payloads symbolic in [-1000,1000]",
    outside="as C01_struct_rank; more than NCYC cycles; whether the consumer runs at all when only a child behind a null sibling ticked (C03); push sources at run time",
    assumptions=["the producer relation used by the order oracle is the harness's own description of the program it wired (who reads whom), not the compiled edge list",
                 "the consumer's user code indexes the inner list of the nested shape only when that list is valid (a wholly unwired inner list throws on indexing - notes/C01.md)"],
    )

META = dict(
    level="bounded exhaustive enumeration of wiring programs through the real Wiring -> build_ranked_graph -> GraphBuilder path (static check of the compiled order, "
          "edges and cycle rejection) and symbolic execution of the same programs under the simulation executor (graph.cpp evaluate_impl / schedule_node_impl, "
          "nested_graph_node.cpp) with symbolic payloads: evaluation order observed through LifecycleObserver and through the nodes' own user code",
    note="C01_rank: 'every compiled edge not declared rank-free has source<target, every node once, push sources first, cyclic requests throw'; "
         "C01_eval: 'per cycle and per graph node indices strictly increase; no node id twice; no consumer before a producer that runs in that cycle; "
         "every computed value equals the glitch-free model'",
)

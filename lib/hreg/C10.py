_ANCH = ["src/hgraph/runtime/map_node.cpp", "include/hgraph/runtime/map_node.h", "src/hgraph/runtime/mapped_key_source.h",
         "src/hgraph/runtime/mapped_child_bindings.h", "include/hgraph/lib/std/operators/impl/higher_order_impl.h",
         "src/hgraph/lib/std/operators/higher_order_impl.cpp", "include/hgraph/runtime/nested_bindings.h",
         "src/hgraph/types/utils/stable_slot_store.cpp", "src/hgraph/types/utils/slot_observer.cpp"]
_SRC = "harness/C10_map.cpp"
_FUNCS = ("mapped function enumerated from {x+1 (stateless), running sum (State), key-consuming key*1000+x (leading key parameter), self-scheduling "
          "(re-emits one cycle after every tick from its own NodeScheduler), x+b with a broadcast argument b that ticks in enumerated cycles, "
          "late (silent on its first tick: live key without valid output)}; every element / broadcast value an unconstrained symbolic int64; "
          "checked after every engine cycle plus one trailing cycle for pending wake-ups")
_OUT = ("map_ call-shape normalisation in front of wire_map (operator front door: keyword binding, __keys__ inference by union); several multiplexed "
        "dictionaries / explicit __keys__ (the union operator is not linkable); nested map inside map; mesh_; tsl_map_node (wire_map_tsl); REF-shaped "
        "child outputs; children that throw (C15) ; error-capturing map (map_node_with_error_capture); re-pointed (REF) sources; pause/resume")
reg("C10",
    name="C10_map", src=_SRC, anchor_files=_ANCH,
    quick=dict(defs=dict(NKEYS=3, BULK=0, NCYC=3, EXTRA_OPS=0, NFUNC=6), symx=dict(shards=16, **{"max-wall": 900})),
    thorough=dict(defs=dict(NKEYS=4, BULK=0, NCYC=3, EXTRA_OPS=0, NFUNC=6), symx=dict(shards=16, **{"max-wall": 3000, "shard-depth": 8})),
    reach=["end", "key_removed", "key_removed_and_readded_same_cycle", "key_with_state_removed_and_added_later", "key_added_after_a_removal", "three_valid",
           "self_scheduled_wakeup", "removed_with_pending_wakeup", "broadcast_tick_alone", "live_key_without_valid_output"],
    bounds="TSD<int,TS<int>> source over keys {0..NKEYS-1}, NCYC engine cycles; in every cycle every key independently does one of {nothing, set (add or "
           "update), remove, erase+set in the same cycle} (all combinations enumerated); " + _FUNCS,
    outside=_OUT + "; more keys / cycles",
    assumptions=["erase+set of a live key within one engine cycle is netted by the source dictionary (documented slot protocol), so the map sees an update "
                 "of a key that never left and the instance continues; 'removed and added again' is exercised across cycles"],
    )
reg("C10",
    name="C10_map_grow", src=_SRC, anchor_files=_ANCH,
    quick=dict(defs=dict(NKEYS=1, BULK=4, NCYC=3, EXTRA_OPS=0, NFUNC=6), symx=dict(shards=16, **{"max-wall": 900})),
    thorough=dict(defs=dict(NKEYS=2, BULK=7, NCYC=3, EXTRA_OPS=0, NFUNC=6), symx=dict(shards=16, **{"max-wall": 3000, "shard-depth": 8})),
    reach=["end", "key_removed", "five_valid", "key_added_after_a_removal", "self_scheduled_wakeup"],
    bounds="as C10_map with NKEYS individually scripted keys plus a group of BULK further keys added / updated / removed as a unit (many keys in one cycle, "
           "slot-store growth, slot reuse after erase: 5 keys quick, 9 keys thorough); " + _FUNCS,
    outside=_OUT,
    )
reg("C10",
    name="C10_map_phantom", src=_SRC, anchor_files=_ANCH,
    quick=dict(defs=dict(NKEYS=2, BULK=0, NCYC=3, EXTRA_OPS=1, NFUNC=6), symx=dict(shards=16, **{"max-wall": 900})),
    thorough=dict(defs=dict(NKEYS=2, BULK=0, NCYC=4, EXTRA_OPS=1, NFUNC=6), symx=dict(shards=16, **{"max-wall": 3000, "shard-depth": 8})),
    reach=["end", "phantom_key", "key_removed", "live_key_without_valid_output"],
    bounds="as C10_map, and an absent key may also be created without a value (instance exists, its input is invalid until the first value) or be added and "
           "removed within one cycle (netted: no instance); " + _FUNCS,
    outside=_OUT,
    )

META = dict(
    level="bounded symbolic model checking of keyed map_ (wire_map -> compile_map_child -> map_node: key reconciliation, child creation/stop/erase, element "
          "forwarding, per-parent child schedule queue, broadcast re-binding) against a model of one isolated instance per key, all element values symbolic: "
          "every output element's validity, value and tick pattern is proven equal to the isolated instance's for every enumerated key history",
    note="bounds in evidence coverage.harnesses[*].bounds; see notes/C10.md",
)

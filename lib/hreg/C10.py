_ANCH = ["src/hgraph/runtime/map_node.cpp", "include/hgraph/runtime/map_node.h", "src/hgraph/runtime/mapped_key_source.h",
         "src/hgraph/runtime/mapped_child_bindings.h", "include/hgraph/lib/std/operators/impl/higher_order_impl.h",
         "src/hgraph/lib/std/operators/higher_order_impl.cpp", "include/hgraph/runtime/nested_bindings.h",
         "src/hgraph/types/utils/stable_slot_store.cpp", "src/hgraph/types/utils/slot_observer.cpp"]
_SRC = "harness/C10_map.cpp"
_FUNCS = ("mapped function enumerated from {x+1 (stateless), running sum (State), key-consuming key*1000+x (leading key parameter), self-scheduling "
          "(re-emits one cycle after every tick from its own NodeScheduler), x+b with a broadcast argument b that ticks in enumerated cycles, "
          "late (silent on its first tick: live key without valid output), sampler (PASSIVE element input, timer armed in the node's start hook: the child is not due in the cycle its key appears, samples one and two cycles later)}; every element / broadcast value an unconstrained symbolic int64; "
          "checked after every engine cycle plus one trailing cycle for pending wake-ups")
_OUT = ("map_ call-shape normalisation in front of wire_map (operator front door: keyword binding, __keys__ inference by union: the union operator is not linkable - C10_map2 passes an explicit keys port); nested map inside map; mesh_; tsl_map_node (wire_map_tsl); REF-shaped "
        "child outputs; children that throw (C15) ; error-capturing map (map_node_with_error_capture); re-pointed (REF) sources; pause/resume")
# configuration tuples {NKEYS, BULK, NCYC, EXTRA_OPS, FMASK}; one binary, configuration and mapped function enumerated first.
# FMASK: bit set of mapped functions (1 inc, 2 running sum, 4 key-consuming, 8 self-scheduling, 16 broadcast arg, 32 late, 64 sampler)
_QUICK = "{3,0,3,0,10},{2,0,3,0,127},{1,4,3,0,127},{2,0,3,1,99}"
_THOROUGH = "{3,0,3,0,127},{4,0,3,0,74},{2,7,3,0,127},{2,0,3,1,127},{2,0,4,1,99}"
reg("C10",
    name="C10_map", src=_SRC, anchor_files=_ANCH,
    quick=dict(defs=dict(CONFIGS=_QUICK), symx=dict(shards=16, **{"max-wall": 900, "query-timeout-ms": 120000})),
    thorough=dict(defs=dict(CONFIGS=_THOROUGH), symx=dict(shards=16, **{"max-wall": 3000, "shard-depth": 8, "query-timeout-ms": 120000})),
    reach=["end", "key_removed", "key_removed_and_readded_same_cycle", "key_with_state_removed_and_added_later", "key_added_after_a_removal", "three_valid",
           "five_valid", "self_scheduled_wakeup", "removed_with_pending_wakeup", "broadcast_tick_alone", "live_key_without_valid_output", "phantom_key", "late_valid_key_after_map_primed", "child_timer_armed_in_start_not_due_at_creation"],
    bounds="TSD<int,TS<int>> source; enumerated configurations {NKEYS, BULK, NCYC, EXTRA_OPS, FMASK = bit set of the mapped functions explored}: quick " + _QUICK + "; thorough " + _THOROUGH + ": in each of "
           "NCYC cycles every one of NKEYS keys independently does {nothing, set (add/update), remove, erase+set in one cycle}, with EXTRA_OPS also {create "
           "the key without a value, add+remove in one cycle}; a group of BULK further keys is added/updated/removed as a unit (many keys per cycle, "
           "slot-store growth, slot reuse after erase); " + _FUNCS,
    outside=_OUT + "; more keys / cycles",
    assumptions=["erase+set of a live key within one engine cycle is netted by the source dictionary (documented slot protocol), so the map sees an update "
                 "of a key that never left and the instance continues; 'removed and added again' is exercised across cycles"],
    )

reg("C10",
    name="C10_map2", src="harness/C10_map2.cpp", anchor_files=_ANCH,
    quick=dict(defs=dict(NKEYS=2, NCYC=3, FMASK=2), symx=dict(shards=16, **{"max-wall": 900, "query-timeout-ms": 120000})),
    thorough=dict(defs=dict(NKEYS=2, NCYC=4, FMASK=3), symx=dict(shards=16, **{"max-wall": 3000, "shard-depth": 8, "query-timeout-ms": 120000})),
    reach=["end", "key_left_one_dictionary_keyset_unchanged", "remaining_input_ticks_after_element_left", "element_returned_to_dictionary",
           "key_joined_keyset_with_held_elements", "key_in_only_one_dictionary", "key_left_keyset", "key_rejoined_keyset",
           "tick_inspecting_instance_created_over_held_element", "tick_inspecting_instance_one_input_ticks_other_held",
           "tick_inspecting_first_evaluation_after_join_cycle"],
    bounds="map_(add, A, B, __keys__=K): TWO multiplexed TSD<int,TS<int>> sources with differing key sets and an explicit scripted TSS<int> key set; NCYC "
           "cycles; key 0: per cycle A {nothing, set, erase} x B {nothing, set, erase} x K {nothing, toggle membership} (all combinations); keys 1..NKEYS-1: "
           "{nothing, all-in / all-out, update A}; element values unconstrained symbolic int64; model: instance per key of K, add(a,b) writes a+b when an "
           "input ticks (or on creation) and both elements are present, stays silent after an element left until it returns; mapped function FMASK "
           "(quick: count only, thorough: add and count): count(a,b) = a+b+acc with acc += 1000*[a.modified()] + 10^6*[b.modified()] per evaluation looks at "
           "WHICH input ticked - an instance created over elements that pre-exist in A / B sees each of them ticking exactly once, at creation "
           "(count has add's evaluation pattern and its output contains add's, so it dominates add)",
    outside=_OUT,
    )

# slot-store growth under a RUNNING map: 6th configuration field PRE = keys preloaded in cycle 0 (and all updated again in the last source cycle)
_GQUICK = "{2,0,3,0,14,8},{1,0,4,0,78,8},{1,0,3,0,2,16}"
_GTHOROUGH = "{3,0,3,0,6,8},{2,0,4,0,78,8},{2,0,3,0,10,16},{1,3,3,0,14,7}"
reg("C10",
    name="C10_grow", src=_SRC, anchor_files=_ANCH,
    quick=dict(defs=dict(CONFIGS=_GQUICK), symx=dict(shards=16, **{"max-wall": 900, "query-timeout-ms": 120000})),
    thorough=dict(defs=dict(CONFIGS=_GTHOROUGH), symx=dict(shards=16, **{"max-wall": 3000, "shard-depth": 8, "query-timeout-ms": 120000})),
    reach=["end", "ninth_key_added_after_first_evaluation", "seventeenth_key_added_after_first_evaluation", "key_added_after_growth_ticks_in_later_cycle",
           "key_added_after_growth_removed", "key_added_after_growth_removed_and_added_again", "old_keys_tick_after_growth", "self_scheduled_wakeup",
           "child_timer_armed_in_start_not_due_at_creation"],
    bounds="same harness source and oracle as C10_map with configurations {NKEYS, BULK, NCYC, EXTRA_OPS, FMASK, PRE}: quick " + _GQUICK + "; thorough " + _GTHOROUGH +
           ": PRE (8 / 16 = the slot store's capacity steps) further keys are all added in cycle 0 and all updated again in the last source cycle, so the NKEYS "
           "individually scripted keys {nothing, set, remove, erase+set per cycle} are the 9th.. / 17th.. simultaneously held keys and arrive in the first "
           "evaluation of the map or in any later cycle (key-slot store growing 8 -> 16 -> 32 under a running map), tick in later cycles in the new slots, are "
           "removed and added again; the preloaded keys tick after the growth (their instances must have survived it); " + _FUNCS,
    outside=_OUT + "; growth combined with phantom keys / a broadcast argument / several multiplexed dictionaries; more keys / cycles",
    )

_TQUICK = "{2,0,3,127},{1,3,3,67}"
_TTHOROUGH = "{2,0,4,127},{3,0,3,67},{1,6,3,127}"
reg("C10",
    name="C10_ticked", src="harness/C10_ticked.cpp", anchor_files=_ANCH + ["src/hgraph/types/time_series/ts_input/target_link.cpp",
                                                                         "src/hgraph/types/time_series/ts_input/base_view.cpp"],
    quick=dict(defs=dict(CONFIGS=_TQUICK), symx=dict(shards=16, **{"max-wall": 900, "query-timeout-ms": 120000})),
    thorough=dict(defs=dict(CONFIGS=_TTHOROUGH), symx=dict(shards=16, **{"max-wall": 3000, "shard-depth": 8, "query-timeout-ms": 120000})),
    reach=["end", "key_added_while_broadcast_held_not_ticking", "key_readded_after_removal_while_broadcast_held", "burst_of_keys_added_while_broadcast_held",
           "key_added_in_cycle_broadcast_ticks", "key_added_before_broadcast_ever_ticked", "first_evaluation_when_late_broadcast_arrives_element_not_ticking",
           "element_update_alone_broadcast_held", "sibling_updated_in_cycle_another_key_was_created", "evaluation_with_no_input_ticking",
           "broadcast_tick_alone", "passive_broadcast_ticked_without_evaluation", "key_removed", "key_removed_and_added_later",
           "fresh_child_sees_whole_held_set_as_delta", "key_added_in_cycle_set_lost_an_element", "live_child_sees_set_removal"],
    bounds="map_(f, D, b): one multiplexed TSD<int,TS<int>> and one broadcast (non-multiplexed) argument; configurations {NKEYS, BULK, NCYC, FMASK}: quick "
           + _TQUICK + "; thorough " + _TTHOROUGH + "; per cycle every one of NKEYS keys does {nothing, set, remove, erase+set}, a group of BULK further keys "
           "is added / updated / removed as a unit (burst), the broadcast source {ticks, does not tick} - so keys appear (first add, re-add after removal, "
           "burst) in cycles in which the broadcast holds a value but does NOT tick, ticks too, or has never ticked; mapped functions that look at WHICH "
           "input ticked (FMASK bits): latch (records b only when b.modified()), per-input tick counter, the counter with a PASSIVE b, with a leading key "
           "parameter (counts key.modified()), with a self-scheduled wake-up (counts evaluations in which no input ticked), with an UNCHECKED b (runs "
           "before the broadcast ever ticked), and a broadcast TSS<int> whose added()/removed() delta and size the function accumulates (set script per "
           "cycle {nothing, add next element, remove lowest}); every element / broadcast value unconstrained symbolic int64; model: isolated instance per "
           "key which sees every input that already holds a value ticking once in the cycle it is created (a collection: its whole value as the delta) "
           "and afterwards only real ticks; checked after every engine cycle plus one trailing cycle",
    outside=_OUT + "; valueless (phantom) keys and add+remove within one cycle (C10_map); TSD / TSL / TSB shaped broadcast arguments; removed() of a broadcast set "
           "in the instance's very first evaluation (left open: the statement does not say whether a fresh instance sees removals that predate it); "
           "more keys / cycles",
    )

META = dict(
    level="bounded symbolic model checking of keyed map_ (wire_map -> compile_map_child -> map_node: key reconciliation, child creation/stop/erase, element "
          "forwarding, per-parent child schedule queue, broadcast re-binding) against a model of one isolated instance per key, all element values symbolic: "
          "every output element's validity, value and tick pattern is proven equal to the isolated instance's for every enumerated key history",
    note="bounds in evidence coverage.harnesses[*].bounds; see notes/C10.md",
)

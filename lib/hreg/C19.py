reg("C19",
    name="C19_resolve", src="harness/C19_resolve.cpp",
    anchor_files=["src/hgraph/types/operator_dispatch.cpp", "include/hgraph/types/operator_dispatch.h", "src/hgraph/types/type_pattern.cpp",
                  "include/hgraph/types/type_pattern.h", "include/hgraph/types/type_resolution.h", "include/hgraph/types/wiring_observer.h"],
    needs_tus=["src/hgraph/types/operator_dispatch.cpp", "src/hgraph/types/type_pattern.cpp"],
    quick=dict(defs=dict(FAMMIN=1, FAMMAX=3, ARITIES=15, POOL1="0x97dfd", POOL2="0xb3ff", ARGS1="0x83f", ARGS2="0xbdf", POOL3="0xcff", ARGS3="0xff", POOL4="0xff", ARGS4="0x1ff", SZMAX=4),
               symx=dict(shards=16, **{"max-wall": 900})),
    thorough=dict(defs=dict(FAMMIN=1, FAMMAX=3, ARITIES=15, POOL1="0x3fffff", POOL2="0xffff", ARGS1="0x1fff", ARGS2="0x1fff", POOL3="0x3fff", ARGS3="0x7ff", POOL4="0xff", ARGS4="0x1ff", SZMAX=6),
                  symx=dict(shards=16, **{"max-wall": 3000})),
    reach=["end", "winner", "winner_among_several_matching", "winner_among_several_matching_3_orders", "no_match_error", "ambiguity_error",
           "single_match", "single_reject", "ts_and_scalar_vars_bound", "size_var_bound", "default_used", "symbolic_rank_member_matches",
           "documented_order_pair_checked", "tsb_fieldwise_winner", "tsb_nested_fieldwise_winner", "tsb_prefix_narrower_pattern_rejected",
           "requested_output_tsb_winner", "requested_output_prefix_narrower_pattern_rejected"],
    bounds="every family of FAMMIN..FAMMAX candidates out of the pool selected by the POOL1/POOL2 masks (quick: 15 one-argument and 13 two-argument candidates, thorough: all 22 and 16) of hand-built OperatorImpl (concrete TS leaf, TS[int] uncollapsed, TS[T], "
           "constrained scalar var, bare V, constrained V, TSL with symbolic fixed size / size variable / constrained size variable with symbolic accepted size / ts-var element, "
           "TSD[K,V], TSD[K,TS[T]], TSD[K,TSL[TS[T],N]], REF[TS[T]], SIGNAL, TSB schema variable, TSW with symbolic period/min-period, TSW any-window, a defaulted scalar parameter, "
           "a **kwargs collector whose pack pattern has a symbolic fixed size (symbolic effective rank), an unbindable output variable; repeated / independent ts, scalar and size "
           "variables across two positions, scalar parameters generic and concrete) x every argument tuple of the pool (ARGS1/ARGS2 masks over 13 one-argument schemas and 13 "
           "two-argument tuples incl. REF sources, nested collections and plain scalar values) x ALL registration orders of the family (each under a fresh operator name, inside one path) "
           "plus every member registered alone; all numeric pattern parameters symbolic in [0,SZMAX]. "
           "Pool group 3 (POOL3/ARGS3; quick 10 x 8, thorough 14 x 11): one-argument candidates whose parameter is a FIELD-WISE TSB pattern (not collapsed to a concrete leaf) - "
           "narrow [a:TS[T]], wide [a:TS[T],b:TS[U]], three fields, repeated variable across fields, swapped order, renamed field, nominal TSB<Pair>, TSB schema variable, "
           "half-concrete, ts-variable field, REF field, the narrow/wide patterns nested under TSD[K,.], bare V - against bundles with the same fields, MORE fields with the pattern's "
           "fields as a prefix, FEWER fields, same count but other names / order, nominal bundles with the same / another name, a REF field, TSD of bundles (input_ts_pattern_match). "
           "Pool group 4 (POOL4/ARGS4; 8 x 9): candidates whose OUTPUT is a field-wise TSB pattern (narrow, wide, three fields, swapped, nominal, bundle input + wider bundle output, "
           "ts variable, plain TS[T]) resolved with a caller-requested output bundle (exact, wider, narrower, swapped, renamed, nominal, conflicting with the input binding, none) "
           "(output_ts_pattern_match / ts_pattern_match)",
    outside="make_operator_impl / register_overload<Op,Impl> / wire<Op> (template front door, not compilable with clang 14); requires predicates and default resolvers; keyword arguments, "
            "non-empty **kwargs packs; variadic tails, the requested output TS<int> and the initial resolution {T:int} are in pool group 5 only (harness C19_variadic); other caller-requested output types than the bundles of pool group 4, size hints; numeric scalar coercion and bundle-inheritance adaptation ranks; "
            "Python candidates; families larger than FAMMAX; arity 3+; the rank formula itself is only constrained through the orderings the developer guide states",
    assumptions=["candidates are built by hand with the public non-template factories and rank = operator_dispatch_detail::operator_rank(params), exactly as make_operator_impl and the Python bridge compute it",
                 "'matches' is defined by an independent reference unifier in the harness (REF transparency and SIGNAL as documented in type_pattern.h); promotion of a plain value to a const "
                 "time-series input is treated as unspecified for completeness (soundness and rank order are still checked)",
                 "the effective rank of a member is read from the WiringResolutionEvent of resolving it alone under the same arguments"],
    )

reg("C19",
    name="C19_resolve_fam4", src="harness/C19_resolve.cpp",
    anchor_files=["src/hgraph/types/operator_dispatch.cpp", "include/hgraph/types/operator_dispatch.h", "src/hgraph/types/type_pattern.cpp",
                  "include/hgraph/types/type_pattern.h", "include/hgraph/types/type_resolution.h", "include/hgraph/types/wiring_observer.h"],
    needs_tus=["src/hgraph/types/operator_dispatch.cpp", "src/hgraph/types/type_pattern.cpp"],
    quick=dict(defs=dict(FAMMIN=4, FAMMAX=4, ARITIES=3, POOL1="0x860d5", POOL2="0x303f", ARGS1="0x82d", ARGS2="0x107", SZMAX=4),
               symx=dict(shards=16, **{"max-wall": 900})),
    thorough=dict(defs=dict(FAMMIN=4, FAMMAX=4, ARITIES=3, POOL1="0x869fd", POOL2="0x31bf", ARGS1="0xcbf", ARGS2="0xbdf", SZMAX=6),
                  symx=dict(shards=16, **{"max-wall": 3000})),
    reach=["end", "winner", "winner_among_several_matching_3_orders", "no_match_error", "ambiguity_error", "single_match", "single_reject", "four_member_family_24_orders"],
    bounds="same harness as C19_resolve restricted to families of exactly 4 candidates (all 24 registration orders inside one path) over a sub-pool "
           "(quick: 8 one-argument x 5 schemas and 8 two-argument x 4 tuples; thorough: 12 x 9 and 10 x 10); numeric pattern parameters symbolic in [0,SZMAX]",
    outside="as C19_resolve; families larger than 4",
    assumptions=["as C19_resolve"],
    )

reg("C19",
    name="C19_variadic", src="harness/C19_resolve.cpp",
    anchor_files=["src/hgraph/types/operator_dispatch.cpp", "include/hgraph/types/operator_dispatch.h", "src/hgraph/types/type_pattern.cpp",
                  "include/hgraph/types/type_pattern.h", "include/hgraph/types/type_resolution.h", "include/hgraph/types/wiring_observer.h"],
    needs_tus=["src/hgraph/types/operator_dispatch.cpp", "src/hgraph/types/type_pattern.cpp"],
    quick=dict(defs=dict(FAMMIN=1, FAMMAX=3, ARITIES=16, POOL5="0x7f7", ARGS5="0x3fffff", SZMAX=4),
               symx=dict(shards=16, **{"max-wall": 900})),
    thorough=dict(defs=dict(FAMMIN=1, FAMMAX=4, ARITIES=16, POOL5="0x1fff", ARGS5="0x3fffff", SZMAX=6),
                  symx=dict(shards=16, **{"max-wall": 3000})),
    reach=["end", "winner", "variadic_winner", "no_match_error", "ambiguity_error", "single_match", "single_reject", "winner_among_several_matching_3_orders",
           "variadic_empty_tail_match", "variadic_shared_variable_tail_agrees_match", "variadic_tail_agrees_with_output_or_initial_binding_match",
           "variadic_tail_disagrees_with_prefix_binding_rejected", "variadic_later_tail_argument_disagrees_rejected",
           "variadic_tail_disagrees_with_requested_output_rejected", "variadic_tail_disagrees_with_initial_resolution_rejected",
           "variadic_tail_disagrees_with_size_variable_rejected", "variadic_inconsistent_call_fallback_wins", "variadic_inconsistent_call_alone_no_match",
           "variadic_inconsistent_call_family_no_match", "variadic_and_fixed_arity_both_match", "variadic_two_prefix_arities_both_match",
           "variadic_tail_only_variable_readings_differ", "size_var_bound"],
    bounds="pool group 5 of harness C19_resolve: every family of FAMMIN..FAMMAX (quick 1..3, thorough 1..4) out of the POOL5 mask (quick: 10 candidates - without any(TS[T],*V), homogint, "
           "the three-argument fixed-arity one; thorough: all 13) of hand-built candidates, 11 of them with OperatorImpl::variadic "
           "(last parameter = variadic tail, rank = operator_rank(params, true) as make_operator_graph_impl): homog(TS[T],*TS[T]), indep(TS[T],*TS[U]), conc(TS[T],*TS[float]), "
           "any(TS[T],*V), (*TS[T])->TS<int>, (*TS[T])->TS[T] (T bindable only by the tail / a requested output / the initial resolution), two(TS[T],TS[U],*TS[U]), (V,*V), "
           "sized(TSL[TS[T],N],*TSL[TS[T],N]), symtail(TS[T],*TSL[TS[T],F]) with F symbolic in [0,SZMAX] (0 = any size; symbolic per-argument tail rank), homogint(TS[int],*TS[int]), "
           "plus fixed-arity (TS[T],TS[T]) and (TS[T],TS[T],TS[T]); x 22 calls of 1..4 arguments: empty tail, tail agreeing / disagreeing with the prefix binding in the first, "
           "second or third tail argument, tail homogeneous in itself but not with the prefix, fully heterogeneous tail, caller-requested output TS<int> and initial_resolution {T:int} "
           "with agreeing / disagreeing tail and prefix, TSL tails agreeing / disagreeing in element type and size variable, a REF source and a plain value in the tail; "
           "x ALL registration orders of the family (fresh operator name each) plus every member alone",
    outside="as C19_resolve; VarIn / make_operator_graph_impl front door (template, clang 14), packed tails (WiringArg::from_variadic_tail: a structural TSL expanded by normalize_call) "
            "and their fixed-input penalty; keyword-only parameters after the tail (positional_params), named arguments; ts-variable or size-variable initial resolutions and size hints; "
            "scalar (non time-series) tail patterns; tails longer than 3 arguments",
    assumptions=["as C19_resolve; the reference unifier threads ONE binding through requested output, initial resolution, fixed prefix and every tail argument (the statement's "
                 "'every type variable bound to one type across all positions'); where that differs from matching each tail argument on its own copy of the earlier bindings "
                 "(only for a variable nothing but the tail can bind) the demand is asserted under its own id C19.variadic_tail_variable_one_type",
                 "a plain value in a tail position (const promotion) is unspecified for completeness, as in C19_resolve"],
    )

META = dict(
    level="bounded exhaustive + symbolic checking of OperatorRegistry::resolve / try_match / normalize_call (operator_dispatch.cpp), operator_rank (operator_dispatch.h), "
          "ts/scalar/size pattern match, rank and resolve (type_pattern.cpp) and ResolutionMap (type_resolution.h): all families x argument tuples x registration orders of the pool, "
          "numeric pattern parameters symbolic",
    note="bounds in evidence coverage.harnesses[*].bounds; observations on ties between a pattern and its strict generalisation are in notes/C19.md",
)

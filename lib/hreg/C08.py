reg("C08",
    name="C08_feedback", src="harness/C08_feedback.cpp",
    anchor_files=["src/hgraph/runtime/feedback_node.cpp", "include/hgraph/runtime/feedback_node.h", "include/hgraph/lib/std/operators/control.h",
                  "src/hgraph/types/graph_wiring.cpp", "src/hgraph/types/time_series/ts_delta.cpp", "src/hgraph/runtime/graph.cpp",
                  "src/hgraph/runtime/nested_graph_node.cpp"],
    quick=dict(defs=dict(NEMIT=3, DMAX=3, WMAX=6), symx=dict(shards=16, **{"max-wall": 900})),
    thorough=dict(defs=dict(NEMIT=4, DMAX=3, WMAX=8), symx=dict(shards=16, **{"max-wall": 3000, "shard-depth": 8})),
    reach=["end", "with_initial", "without_initial", "back_to_back_writes", "writes_with_gap", "initial_and_write_in_start_cycle",
           "mutual_loops", "nested_loop", "passive_loop_ran", "active_loop_reticked"],
    bounds="stdlib::feedback<TS<Int>> in 5 enumerated loop shapes (self loop with active reader writing on script ticks; self loop with PASSIVE reader; "
           "two mutual loops ticking together; self loop writing on every evaluation; the first shape inside a nested child graph), each with and without a "
           "declared initial value; a script source with NEMIT emissions: first offset symbolic in [0,DMAX] us from start, later gaps symbolic in [1,DMAX] us "
           "(1 = consecutive smallest steps); emitted values and the initial value symbolic in [-1e6,1e6]; start symbolic in [0,1000] us after MIN_ST; "
           "window length symbolic in [1,WMAX] us",
    outside="feedback of collection shapes (TSS/TSD/TSB deltas: capture_delta / apply_delta beyond the scalar TS case); polymorphic TS[Base] deltas "
            "(the capture_delta fallback branch of evaluate_feedback_sink); more than NEMIT writes per loop driven by the script (the always-writing shape "
            "performs up to WMAX writes); more than two loops; loops deeper than one nesting level; the request/reply transport's use of feedback",
    assumptions=["the nested variant is wired through hk/hk_nested.h, a line-by-line mirror of subgraph_wiring.h nested_<G> (whose template body crashes clang 14); "
                 "finish_subgraph, single_nested_graph_node and all runtime code are the repository's"],
    )

META = dict(
    level="bounded symbolic model checking of the real feedback source/sink pair (feedback_node.cpp), its rank-free wiring (control.h FeedbackWiringPort, "
          "graph_wiring.cpp) and the simulation executor: all write times, written values, the initial value, start and window are symbolic; loop shapes enumerated",
    note="oracle: every read of the feedback port by the reader node, the reader-port recorder stream, the set of evaluations of the reader and the set of "
         "engine cycles are compared with the one-step-delay model; bounds in evidence coverage.harnesses[*].bounds",
)

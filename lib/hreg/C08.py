reg("C08",
    name="C08_feedback", src="harness/C08_feedback.cpp",
    anchor_files=["src/hgraph/runtime/feedback_node.cpp", "include/hgraph/runtime/feedback_node.h", "include/hgraph/lib/std/operators/control.h",
                  "src/hgraph/types/graph_wiring.cpp", "src/hgraph/types/time_series/ts_delta.cpp", "src/hgraph/runtime/graph.cpp",
                  "src/hgraph/runtime/nested_graph_node.cpp"],
    quick=dict(defs=dict(NEMIT=3, DMAX=3, WMAX=6), symx=dict(shards=16, **{"max-wall": 900})),
    thorough=dict(defs=dict(NEMIT=4, DMAX=3, WMAX=8), symx=dict(shards=16, **{"max-wall": 3000, "shard-depth": 8})),
    reach=["end", "with_initial", "without_initial", "back_to_back_writes", "writes_with_gap", "initial_and_write_in_start_cycle",
           "mutual_loops", "nested_loop", "passive_loop_ran", "active_loop_reticked", "passive_loop_with_active_twin"],
    bounds="stdlib::feedback<TS<Int>> in 7 enumerated loop shapes (self loop with active reader writing on script ticks; self loop with PASSIVE reader; "
           "two mutual loops ticking together; self loop writing on every evaluation; the first shape inside a nested child graph; a passive(fb()) loop with an identical ACTIVE twin node on the same ports, in both wiring orders), each with and without a "
           "declared initial value; a script source with NEMIT emissions: first offset symbolic in [0,DMAX] us from start, later gaps symbolic in [1,DMAX] us "
           "(1 = consecutive smallest steps); emitted values and the initial value symbolic in [-1e6,1e6]; start symbolic in [0,1000] us after MIN_ST; "
           "window length symbolic in [1,WMAX] us",
    outside="collection shapes (see C08_feedback_tss for TSS, C08_feedback_tsd for TSD; TSB/TSL not covered); polymorphic TS[Base] deltas "
            "(the capture_delta fallback branch of evaluate_feedback_sink); more than NEMIT writes per loop driven by the script (the always-writing shape "
            "performs up to WMAX writes); more than two loops; loops deeper than one nesting level; the request/reply transport's use of feedback",
    assumptions=["the nested variant is wired through hk/hk_nested.h, a line-by-line mirror of subgraph_wiring.h nested_<G> (whose template body crashes clang 14); "
                 "finish_subgraph, single_nested_graph_node and all runtime code are the repository's"],
    )

reg("C08",
    name="C08_feedback_tss", src="harness/C08_feedback_tss.cpp",
    anchor_files=["src/hgraph/runtime/feedback_node.cpp", "include/hgraph/runtime/feedback_node.h", "include/hgraph/lib/std/operators/control.h",
                  "src/hgraph/types/time_series/ts_delta.cpp", "src/hgraph/types/graph_wiring.cpp"],
    quick=dict(defs=dict(NEMIT=2, DMAX=3, WMAX=5), symx=dict(shards=16, **{"max-wall": 600})),
    thorough=dict(defs=dict(NEMIT=3, DMAX=3, WMAX=7), symx=dict(shards=16, **{"max-wall": 3000, "shard-depth": 8})),
    reach=["end", "tss_back_to_back_writes", "tss_removal_delivered", "tss_two_deliveries", "tss_empty_delta_tick_written"],
    bounds="stdlib::feedback<TSS<Int>> self loop without initial value (active reader, Unchecked validity); NEMIT script ticks, each applying one of 5 "
           "enumerated set operations over concrete keys {0,1,2} (add 0; add 1; remove 0; add 0 and 1; remove 0 and add 2 - including operations "
           "without net effect); script times symbolic (first offset in [0,DMAX] us, gaps in [1,DMAX] us); start symbolic in [0,1000] us; window symbolic "
           "in [1,WMAX] us",
    outside="TSS feedback with a declared initial delta; TSD feedback (see C08_feedback_tsd); TSB / TSL feedback; symbolic set elements (keys of hashed containers must be concrete); "
            "passive TSS readers; nested graphs",
    )

reg("C08",
    name="C08_feedback_tsd", src="harness/C08_feedback_tsd.cpp",
    anchor_files=["src/hgraph/runtime/feedback_node.cpp", "include/hgraph/runtime/feedback_node.h", "include/hgraph/lib/std/operators/control.h",
                  "src/hgraph/types/time_series/ts_delta.cpp", "src/hgraph/types/graph_wiring.cpp"],
    quick=dict(defs=dict(NEMIT=2, DMAX=2, WMAX=4), symx=dict(shards=16, **{"max-wall": 2400})),
    thorough=dict(defs=dict(NEMIT=3, DMAX=2, WMAX=6), symx=dict(shards=16, **{"max-wall": 3000, "shard-depth": 8})),
    reach=["end", "tsd_empty_first_tick_written", "tsd_empty_first_tick_delivered", "tsd_empty_initial_delta_delivered", "tsd_initial_delta_delivered",
           "tsd_empty_delta_tick_written", "tsd_removal_delivered", "tsd_amend_delivered", "tsd_remove_and_add_in_one_tick_delivered",
           "tsd_clear_of_two_keys_delivered", "tsd_two_keys_in_one_tick_delivered",
           "tsd_two_deliveries", "tsd_back_to_back_writes", "tsd_writes_with_gap"],
    bounds="stdlib::feedback<TSD<Int, TS<Int>>> self loop (active reader, Unchecked validity) with 3 enumerated openings: no declared initial value; "
           "declared initial delta = the EMPTY dictionary (a state loop opened with an empty book); declared initial delta {0: iv}. NEMIT script ticks, each "
           "applying one of 9 enumerated dictionary operations over concrete keys {0,1,2} (set k0; set k1; erase k0; set k0 and k1; erase k0 + set k2; "
           "clear; touch = valid-but-empty tick; erase k0 + set k0 in one tick; set k0 + erase k0 in one tick - operations without net effect and the "
           "empty FIRST tick included); all written values and the initial value symbolic in [-1e6,1e6]; script times symbolic (first offset in "
           "[0,DMAX] us, gaps in [1,DMAX] us: back-to-back and with gaps); start symbolic in [0,1000] us; window symbolic in [1,WMAX] us",
    outside="TSB / TSL / TSW feedback; dictionaries of collections (TSD<K,TSS>, TSD<K,TSB>: recursive child deltas); keys created without a value (not part of "
            "any delta: invisible to the reader until they get a value - observed, not asserted); symbolic keys (keys of hashed containers must be "
            "concrete); passive TSD readers; nested graphs; authored deltas with strict removals (removed_strict) as initial value",
    assumptions=["with a declared initial value the reader's dictionary is modelled as the fold of the delivered deltas over the initial contents "
                 "(feedback transports deltas): e.g. initial {0: iv} followed by the producer's first write {1: a} reads {0: iv, 1: a}"],
    )

META = dict(
    level="bounded symbolic model checking of the real feedback source/sink pair (feedback_node.cpp), its rank-free wiring (control.h FeedbackWiringPort, "
          "graph_wiring.cpp) and the simulation executor: all write times, written values, the initial value, start and window are symbolic; loop shapes enumerated",
    note="known finding F1 (C08_feedback_tss, C08_feedback_tsd): a TSS / TSD tick with an empty delta on an already valid output is not delivered as a tick "
         "(an empty FIRST tick is, and must be: C08.tsd_empty_first_tick_delivered) - listed in known_findings.jsonl; oracle: every read of the feedback port by the reader node, the reader-port recorder stream, the set of evaluations of the reader and the set of "
         "engine cycles are compared with the one-step-delay model; bounds in evidence coverage.harnesses[*].bounds",
)

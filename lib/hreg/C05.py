_ANCHORS = ["src/hgraph/types/metadata/ts_data_slot_ops.cpp", "src/hgraph/types/metadata/ts_data_dynamic_list_ops.cpp",
            "src/hgraph/types/metadata/ts_data_fixed_structured_ops.cpp", "src/hgraph/types/metadata/ts_data_window_ops.cpp",
            "src/hgraph/types/time_series/ts_data/set_view.cpp", "src/hgraph/types/time_series/ts_data/dict_view.cpp",
            "src/hgraph/types/time_series/ts_data/indexed_view.cpp", "src/hgraph/types/time_series/ts_data/window_view.cpp",
            "src/hgraph/types/time_series/ts_output/set_view.cpp", "src/hgraph/types/time_series/ts_output/dict_view.cpp",
            "src/hgraph/types/utils/stable_slot_store.cpp", "src/hgraph/types/utils/slot_observer.cpp",
            "src/hgraph/types/time_series/ts_delta.cpp", "src/hgraph/types/time_series/ts_data/base_view.cpp"]
_REACH = ["end", "shape_tss", "shape_tsd", "shape_tsl", "shape_tsb", "shape_tsw", "shape_tsd_tss", "shape_tss_onekey", "shape_tsd_onekey", "shape_tsw_time", "time_window_expired_some_not_all", "time_window_grows_while_wrapped",
          "add_remove_add_same_key_one_cycle", "remove_add_remove_same_key_one_cycle", "key_reinserted_after_write_same_cycle", "key_erased", "nested_remove",
          "key_recreated_in_later_cycle", "idle_cycle", "added_and_removed_same_cycle",
          "removed_and_readded_same_cycle", "element_only_write", "key_created_without_value", "element_invalidated", "list_grew",
          "element_written_twice_in_cycle", "whole_value_write", "window_cleared", "window_rolled", "min_period_above_one"]
_OUTSIDE = ("more cycles / mutations per cycle; element types other than int; duration windows with a min_time_range, clear() on duration windows, more than NCYC_TW pushes; nested collection values other than TSD<int,TSS<int>>; "
            "REF and forwarding outputs; whole-value replacement of TSS/TSD (copy_value_from)")

reg("C05",
    name="C05_delta", src="harness/C05_delta.cpp",
    anchor_files=_ANCHORS,
    quick=dict(defs=dict(NCYC=2, NOPS=2, NK=2, RAMP=0, TSS_LAST=1), symx=dict(shards=16, **{"max-wall": 900})),
    thorough=dict(defs=dict(NCYC=3, NCYC_TSS=3, NCYC_TSD=3, BIG_LAST=1, MID5=2, NOPS=2, NK=2, RAMP=9, NCYC_TW=7), symx=dict(shards=16, **{"max-wall": 3000, "shard-depth": 8})),
    reach=_REACH,
    bounds="unit level, no graph: one real TSOutput of each shape in {TSS<int>, TSD<int,TS<int>>, dynamic TSL<TS<int>>, TSB{a,b}, TSW<int,N,min> with N in 1..3 and "
           "min in 1..N, TSD<int,TSS<int>> (3 cycles of NOPS, MID5, 1 operations from {add (k,e) creating k, remove (k,e), erase k, clear}, elements {0,1}), "
           "TSS<int> and TSD<int,TS<int>> over ONE key with a one-operation prefix cycle followed by NPRIM=3 primitives on that key in one cycle "
           "(add-remove-add on an absent key, remove-add-remove on a present key, set-erase-set, ...), "
           "a duration-based TSW<int, range 10us> with NCYC_TW=6 pushes (one per cycle) at symbolic gaps in [1,TW_GMAX=12] us: every expiry pattern, incl. the 4-slot "
           "ring wrapping and then growing} (enumerated) observed through the producer view, a bound TSInput consumer, delta_value() and capture_delta(); NCYC cycles (TSS: NCYC_TSS with TSS_LAST mutations in the last one, "
           "TSD: NCYC_TSD with BIG_LAST in the last one, TSW: 2*NCYC with one mutation scope per cycle) of NOPS mutations each, enumerated from {nothing, add/remove/clear (TSS), set/erase/clear/"
           "element write/create without value/element invalidate (TSD), element write with growth/whole-value write (TSL, TSB), push/clear/clear+push (TSW)}; "
           "keys from {0..NK-1} (thorough: after a concrete ramp of RAMP further keys inserted in a first cycle, crossing the slot-store growth boundaries); base time, "
           "gaps in [1,GMAX] us and all payloads in [-1e6,1e6] symbolic",
    outside=_OUTSIDE,
    assumptions=["evaluation times are supplied by the harness in strictly increasing order, one mutation batch per time, as the evaluation engine does",
                 "for TSW the harness uses one mutation scope per cycle (the runtime rejects a second push / clear at the same evaluation time by exception) and "
                 "does not call capture_delta on ticks in which clear() participated (documented as unrepresentable)",
                 "duration windows need no evaluation clock at this level: TSWDataMutationView::push prunes relative to the mutation time passed to begin_mutation, "
                 "which the harness supplies (strictly increasing, symbolic gaps)"],
    )
reg("C05",
    name="C05_delta_deep", src="harness/C05_delta.cpp", tiers=("thorough",),
    anchor_files=_ANCHORS,
    thorough=dict(defs=dict(ONLY_SHAPE=0, NCYC=2, NCYC_TSS=2, NOPS=3, NK=3, RAMP=17), symx=dict(shards=16, **{"max-wall": 3000, "shard-depth": 8})),
    reach=["end", "shape_tss", "added_and_removed_same_cycle", "removed_and_readded_same_cycle", "growth_ramp"],
    bounds="TSS<int> only: 2 cycles of 3 mutations over keys {0,1,2} after a ramp of 17 further keys (several mutations of one element within a cycle)",
    outside=_OUTSIDE,
    )

META = dict(
    level="bounded symbolic model checking of the collection delta machinery (slot store added/removed/modified bits with cancellation and lazy reclamation, "
          "dynamic list growth, fixed-structure child deltas, tick-window push/evict/clear) against a mirror model and against the relation "
          "value(t) = value(t_prev) (+) delta(t): every mutation history up to the bound, all payloads and times symbolic",
    note="on TSD histories that contain a key which is live without a published value (created without a write, or element invalidated) the tree contradicts "
         "the statement (open known findings F3a-c, asserted under their own ids); F4 (tick window valid() below min_period) was found by this harness and is "
         "fixed in /repo 08e1221; triage in notes/C05.md",
)

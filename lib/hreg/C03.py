reg("C03",
    name="C03_gate", src="harness/C03_gate.cpp",
    anchor_files=["src/hgraph/runtime/node.cpp", "include/hgraph/runtime/node.h", "include/hgraph/types/static_node.h",
                  "src/hgraph/types/time_series/ts_input/target_link.cpp", "src/hgraph/types/time_series/ts_input/target_link_ops.cpp",
                  "src/hgraph/types/time_series/ts_input/base_view.cpp", "src/hgraph/types/time_series/ts_data/types.cpp",
                  "src/hgraph/runtime/graph.cpp", "src/hgraph/types/graph_wiring.cpp", "include/hgraph/runtime/node_scheduler.h"],
    quick=dict(defs=dict(NCYC=3, NSOPS=1, DMAX=2, VARIANT_MASK=0xff), symx=dict(shards=16, **{"max-wall": 900})),
    thorough=dict(defs=dict(NCYC=4, NSOPS=2, DMAX=2, VARIANT_MASK=0xff), symx=dict(shards=16, **{"max-wall": 3000, "shard-depth": 8})),
    reach=["end", "passive_only_tick_while_ready", "active_tick_while_required_invalid", "two_active_inputs_tick_together",
           "ran_on_own_wakeup", "wake_due_while_required_invalid", "cancelled_time_reached", "wake_only_cycle",
           "ran_with_unchecked_input_invalid", "ran_reading_older_passive_value",
           "variant_marker", "variant_allvalid", "variant_schema_gate", "variant_wake", "variant_nested", "ran_on_schedule_on_start_only", "policy_passive_and_wired_passive_combined"],
    bounds="one observed compute node + sink, fed by scripted sources a,b,c that each tick or not in each of NCYC consecutive cycles (all 2^(3*NCYC) "
           "tick patterns enumerated, payloads symbolic in [-1000,1000]); 8 gate variants: (0) a active+required, b InputActivity::Passive+required, "
           "c active+InputValidity::Unchecked, State<Int> run counter; (1) b made passive by the wiring-time passive(port) marker; (2) {a,b} as one TSB input "
           "with InputValidity::AllValid; (3) the same contract registered as a native-callback node so that node.cpp ready_to_evaluate / valid_inputs decides; "
           "(4) a active, b passive, plus NodeScheduler requests from start() and from the first NSOPS runs: none / schedule(d) / schedule(d,'a') / "
           "un_schedule('a') / schedule+un_schedule in one evaluation / schedule(d,'a') then schedule(d2,'a'), d,d2 symbolic in [1,DMAX] us, with DMAX+1 trailing "
           "wake-up-only cycles; (5) variant 0 inside a nested child graph (single_nested_graph_node); (6) a schedule_on_start node without required inputs (a active, b passive, c active, all Unchecked); "
           "(7) a active+required, b InputActivity::Passive+required, c Unchecked wired through passive(port) - both passive mechanisms on one node",
    outside="more than NCYC input cycles / NSOPS scheduling evaluations; more than three inputs; collection-shaped inputs other than a 2-field TSB (TSL/TSD/TSS "
            "validity and Structural activity); REF inputs (C13); nodes inside map_/switch_/reduce children; nesting deeper than one level; push sources; "
            "requests for the current or a past time (C18) and cycle timing itself (C02)",
    assumptions=["variant 3 builds the node through NodeBuilder::from_descriptor with the static node's own schema/endpoint and an ungated evaluate callback "
                 "(input_validity_in_evaluate=false), i.e. the way non-static (native/Python) nodes are registered",
                 "variant 5 is wired through hk/hk_nested.h, a mirror of subgraph_wiring.h nested_<G> (whose template body crashes clang 14); "
                 "finish_subgraph, single_nested_graph_node and all runtime code are the repository's"],
    )

reg("C03",
    name="C03_native_gate", src="harness/C03_native_gate.cpp",
    anchor_files=["src/hgraph/runtime/node.cpp", "include/hgraph/runtime/node.h", "include/hgraph/runtime/node_scheduler.h", "src/hgraph/runtime/graph.cpp"],
    quick=dict(defs=dict(NEMIT=2, OMAX=2, GMAX=2, DMAX=4, RDMAX=2), symx=dict(shards=16, **{"max-wall": 900})),
    thorough=dict(defs=dict(NEMIT=2, OMAX=3, GMAX=3, DMAX=6, RDMAX=3), symx=dict(shards=16, **{"max-wall": 3000, "shard-depth": 8})),
    reach=["end", "notified_while_not_ready_then_wakeup_honoured", "wakeup_due_while_not_ready", "ran_after_wakeup_fired_unready", "ran_on_own_wakeup",
           "passive_only_tick_while_ready", "second_request_from_run"],
    bounds='a NATIVE-callback compute node (NodeBuilder::native; readiness decided by node.cpp ready_to_evaluate from valid_inputs={a,b}) with inputs a (active) and b (passive or active, enumerated), both required, and a NodeScheduler: one wake-up requested in start() at start+d0 (d0 symbolic in [1,DMAX] us) and one in the first run at now+rd (rd symbolic in [0,RDMAX], 0 = none); sources a and b each emit 0..NEMIT values (count enumerated): first at start+off (off symbolic in [0,OMAX]), later ones after symbolic gaps in [1,GMAX]; payloads symbolic in [-1000,1000]; run window OMAX+GMAX*(NEMIT-1)+DMAX+RDMAX+2 us',
    outside='more emissions/requests; tagged requests and cancel operations on a native node (static-node versions: C03_gate variant 4, C18_sched_graph); all_valid_inputs and more than two inputs on a native node; native nodes inside nested graphs; real-time executor',
    assumptions=["the native node is wired with Wiring::add_node over the un-named TSB {a,b} input schema (hk/hk_native.h), its sources and sink are static nodes"],
    )

reg("C03",
    name="C03_sampler", src="harness/C03_sampler.cpp",
    anchor_files=["src/hgraph/runtime/node.cpp", "include/hgraph/runtime/node.h", "include/hgraph/types/static_node.h", "include/hgraph/runtime/node_scheduler.h",
                  "src/hgraph/types/time_series/ts_input/target_link.cpp", "src/hgraph/types/time_series/ts_input/target_link_ops.cpp",
                  "src/hgraph/types/time_series/ts_input/base_view.cpp", "src/hgraph/types/time_series/ts_input.cpp",
                  "src/hgraph/runtime/graph.cpp", "src/hgraph/runtime/nested_graph_node.cpp", "src/hgraph/types/graph_wiring.cpp"],
    quick=dict(defs=dict(NCYC=3, TRAIL=3, DMAX=3, PMAX=3, DYN_DMAX=2, VARIANT_MASK=0x3fff), symx=dict(shards=16, **{"max-wall": 900})),
    thorough=dict(defs=dict(NCYC=4, TRAIL=3, DMAX=3, PMAX=4, DYN_DMAX=2, VARIANT_MASK=0x3fff), symx=dict(shards=16, **{"max-wall": 3000, "shard-depth": 8})),
    reach=["end", "one_passive_tick_alone_while_ready", "both_passive_inputs_tick_together_without_wakeup", "ran_on_own_wakeup_without_any_tick",
           "own_wakeup_and_passive_tick_in_one_cycle", "own_wakeup_due_while_required_invalid", "ran_reading_older_passive_value",
           "ran_after_sources_stopped_ticking", "passive_tick_between_two_own_wakeups", "ran_on_schedule_on_start_only",
           "active_input_next_to_passive_structural_ran_node", "passive_structural_child_tick_next_to_active_input",
           "tick_of_input_activated_at_run_time_ran_node", "tick_after_make_passive_without_wakeup",
           "other_passive_tick_alone_while_one_input_dynamically_active", "make_active_in_cycle_where_input_already_ticked",
           "variant_static_all_passive", "variant_schedule_on_start_period", "variant_single_shot_scheduler", "variant_no_wakeup_at_all",
           "variant_non_peered_tsb_all_children_passive", "variant_non_peered_tsl_all_children_passive", "variant_native_empty_active_inputs",
           "variant_nested_all_passive", "variant_peered_tsb_passive", "variant_single_passive_input", "variant_schedule_on_start_only",
           "variant_mixed_structural_passive", "variant_dynamic_activity", "variant_dynamic_activity_tsb_child"],
    bounds="one observed node WITHOUT any active input (active-input selector present but empty) + sink, fed by scripted sources a, b that each tick or not in "
           "each of NCYC consecutive cycles (all tick patterns enumerated, payloads symbolic in [-1000,1000]); the node asks for its first wake-up d0 us after "
           "start and from every run for the next one p us later (d0 in [1,DMAX], p in [1,PMAX], both symbolic), TRAIL trailing wake-up-only cycles; 14 variants: "
           "(0) a Passive+required, b Passive+Unchecked, NodeScheduler; (1) schedule_on_start + period, all Unchecked; (2) SingleShotScheduler in start and eval; "
           "(3) no wake-up source at all (must never run); (4) one non-peered TSB input {a,b} Passive+AllValid; (5) one non-peered TSL<TS,2> input Passive+Unchecked; "
           "(6) NodeBuilder::native node with active_inputs={} and valid_inputs={a} (node.cpp ready_to_evaluate); (7) variant 0 inside a single_nested_graph_node child; "
           "(8) one peered TSB input (single producer) Passive, default validity; (9) a single Passive input (stdlib resample signature); (10) schedule_on_start only; "
           "(11) control: passive non-peered TSB next to one active input c; (12) declared-passive input a switched active / passive again by user code at run time "
           "(make_active in run 0 or 1, make_passive never / 1 / 2 runs later; d0 in [0,DYN_DMAX] (0 = the start cycle itself), p in [2,PMAX]); (13) the same on child x of a non-peered TSB input",
    outside="more than NCYC input cycles / NT=NCYC+TRAIL modelled cycles; more than two passive inputs; a different period per run, tagged requests and cancel operations "
            "(C03_gate variant 4, C18); TSD/TSS inputs and InputActivity::Structural; REF inputs (C13); a native node whose root input is not a TSB (node.cpp "
            "activate_input_slots does not consult the selector there, by construction); passive(port) on every input (refused at wiring by "
            "NodeBuilder::with_passive_inputs); all-passive nodes inside map_/switch_/reduce children; restart of a stopped node (out of contract: "
            "docs architecture.rst 'Restart is not supported by design'), so the deactivate path is reached through make_passive() at run time and through stop at the end of the run",
    assumptions=["variant 6 is wired with Wiring::add_node over the un-named TSB {a,b} input schema, the way hk/hk_native.h does",
                 "variant 7 is wired through hk/hk_nested.h (mirror of subgraph_wiring.h nested_<G>, whose template body crashes clang 14)",
                 "variants 12/13: an input counts as active from the cycle after the run that called make_active() until the run that calls make_passive() (inclusive)"],
    )

META = dict(
    level="bounded symbolic model checking of the activation and readiness gates (node.cpp activate_input_slots / notify / ready_to_evaluate / evaluate_impl, "
          "static_node.h invoke_gated, graph.cpp schedule_node_impl / evaluate_impl, NodeBuilder::with_passive_inputs) on real wired graphs run by the simulation "
          "executor: all tick patterns up to the bound enumerated, payloads and own wake-up deltas symbolic",
    note="oracle per cycle: ran <=> (active input ticked or own wake-up due) and required inputs valid; values read == latest written; sink output == f(values, state). "
         "The 'only if' direction after a cancelled scheduler request is asserted under the separate id C03.ran_without_cause_after_cancel (observation O1, known finding).",
)

reg("C07",
    name="C07_repro", src="harness/C07_repro.cpp",
    anchor_files=["src/hgraph/runtime/executor.cpp", "src/hgraph/runtime/graph.cpp", "src/hgraph/runtime/global_state.cpp", "include/hgraph/runtime/global_state.h",
                  "src/hgraph/types/metadata/type_registry.cpp", "src/hgraph/types/metadata/type_record_registry.cpp", "include/hgraph/types/utils/intern_table.h"],
    quick=dict(defs=dict(NEMIT=3, DMAX=3, THREADS=0), symx=dict(shards=4, **{"max-wall": 600})),
    thorough=dict(defs=dict(NEMIT=4, DMAX=4, THREADS=0), symx=dict(shards=16, **{"max-wall": 1800})),
    reach=["end", "two_cycles", "built_another_graph", "ran_another_graph", "builder_reused_three_times", "runs_inside_selected_global_context_with_copy_back"],
    bounds="a source emitting NEMIT symbolic values at symbolic gaps in [0,DMAX] us feeds a stateful accumulator that reads and overwrites GlobalState keys; the same "
           "recipe (seeded GlobalState) is run twice; between the runs one of {nothing, build another graph, run another graph writing the same keys, reuse the builder "
           "twice more, wire and run both inside a user-selected GlobalContext copying each run's final state back into it}; every run has its own symbolic wall clock (start value in a 2e17 ns range, each reading advancing by a symbolic 0..5 ms); start time symbolic",
    outside="recorded buffers (record/replay memory nodes are not compilable under clang 14); dynamic children; dependence on allocation addresses (pointers are concrete in symx)",
    )
reg("C07",
    name="C07_repro_mt", src="harness/C07_repro.cpp", threads=True, tiers=("thorough",),
    anchor_files=["src/hgraph/runtime/executor.cpp", "src/hgraph/runtime/graph.cpp", "src/hgraph/types/utils/counted_mutex.cpp", "src/hgraph/types/metadata/type_registry.cpp"],
    thorough=dict(defs=dict(NEMIT=2, DMAX=3, THREADS=1), symx=dict(shards=16, **{"max-wall": 1500, "max-preempt": 1, "shard-depth": 10}), validate=6),
    reach=["end", "two_executors_interleaved", "two_cycles"],
    bounds="two executors of the same recipe run on two interpreter threads, interleaved at every synchronisation operation (registry mutexes, atomics, thread start/exit) "
           "with at most one preemptive switch; NEMIT symbolic emissions",
    outside="more preemptions; data races (code between synchronisation operations is treated as atomic)",
    assumptions=["threads are symx interpreter threads; counterexamples are re-executed concretely inside symx along the recorded schedule",
                 "the code is data-race free: only synchronisation operations are scheduling points"],
    )

reg("C07",
    name="C07_ctx_mt", src="harness/C07_repro.cpp", threads=True,
    anchor_files=["src/hgraph/runtime/global_state.cpp", "include/hgraph/runtime/global_state.h", "src/hgraph/runtime/graph.cpp", "src/hgraph/types/graph_wiring.cpp"],
    quick=dict(defs=dict(NEMIT=1, DMAX=3, THREADS=2), symx=dict(shards=8, **{"max-wall": 900, "max-preempt": 1, "shard-depth": 8}), validate=4),
    thorough=dict(defs=dict(NEMIT=2, DMAX=3, THREADS=2), symx=dict(shards=16, **{"max-wall": 1500, "max-preempt": 2, "shard-depth": 10}), validate=6),
    reach=["end", "context_thread_and_plain_thread_interleaved"],
    bounds="one interpreter thread selects its own GlobalContext (wiring-time global state with an extra entry) and builds and runs a graph inside it while a second "
           "thread that selected no context builds and runs the same recipe; every interleaving at synchronisation operations with at most max-preempt preemptions",
    outside="data races; more threads; contexts nested on one thread",
    assumptions=["threads are symx interpreter threads (thread_local storage is per interpreter thread); counterexamples are re-executed concretely inside symx along the recorded schedule",
                 "the code is data-race free: only synchronisation operations are scheduling points"],
    )

META = dict(
    level="bounded symbolic model checking by self-composition: two (or more) runs of the same builder inside one path, the traces asserted equal for all values of the "
          "wall clock, the inputs and the start time; interfering histories enumerated; thorough adds two executors on interleaved interpreter threads",
    note="'other executors running at the same time' is covered at synchronisation-point granularity only; data races are invisible to this technique",
)

# appended by h-c14-c15: process-history independence of the interned error-capturing node types
reg("C07",
    name="C07_history_capture", src="harness/C07_history_capture.cpp",
    anchor_files=["src/hgraph/runtime/node.cpp", "src/hgraph/runtime/node_error.cpp", "src/hgraph/types/graph_wiring.cpp"],
    quick=dict(defs=dict(NCYC=3, NVAL=2), symx=dict(shards=4, **{"max-wall": 600})),
    thorough=dict(defs=dict(NCYC=5, NVAL=3), symx=dict(shards=16, **{"max-wall": 1800})),
    reach=["end", "a_before_b", "b_before_a", "b_only", "first_graph_run_before_second_built"],
    bounds="two graphs with the same nodes and topology (src -> mid -> thrower -> sink, exception_time_series(thrower, options) -> error sink) that differ only "
           "in their ErrorCaptureOptions: A = depth 1 / no values (default), B = depth 2 / captured input values; enumerated history {A then B, B then A, B only} "
           "and whether the first graph is run before the second is built; the evaluation in which each thrower throws is symbolic in [0,NCYC); payloads "
           "concrete (enumerated base value, a capturing node formats them); each graph's NodeError is compared with what its OWN options demand "
           "(1 + depth node frames in activation_back_trace, 'value=' present iff capture_values), one error tick with the thrown message in the throwing cycle",
    outside="error-capturing map_/try_except variants; more than two option sets; the exact text of the back trace beyond frame count and value presence; "
            "'B alone in a fresh process' cannot be a second run of the same path (the registry is process-wide) - replaced by the expected content",
    )

// Models of libstdc++'s out-of-line hashing helpers (hash_bytes.cc murmur2-64A, hashtable_c++0x.cc).
#include <cstddef>
#include <cstdint>
#include <cstring>
#include <cmath>
#include <unordered_map>
namespace std {
static inline size_t load8(const char *p) { size_t r; __builtin_memcpy(&r, p, sizeof r); return r; }
static inline size_t load_bytes(const char *p, int n) { size_t r = 0; --n; do r = (r << 8) + static_cast<unsigned char>(p[n]); while (--n >= 0); return r; }
static inline size_t shift_mix(size_t v) { return v ^ (v >> 47); }
size_t _Hash_bytes(const void *ptr, size_t len, size_t seed) {
    static const size_t mul = (((size_t)0xc6a4a793UL) << 32UL) + (size_t)0x5bd1e995UL;
    const char *const buf = static_cast<const char *>(ptr);
    const size_t len_aligned = len & ~(size_t)0x7;
    const char *const end = buf + len_aligned;
    size_t hash = seed ^ (len * mul);
    for (const char *p = buf; p != end; p += 8) { const size_t data = shift_mix(load8(p) * mul) * mul; hash ^= data; hash *= mul; }
    if ((len & 0x7) != 0) { const size_t data = load_bytes(end, len & 0x7); hash ^= data; hash *= mul; }
    hash = shift_mix(hash) * mul;
    hash = shift_mix(hash);
    return hash;
}
size_t _Fnv_hash_bytes(const void *ptr, size_t len, size_t hash) {
    const char *cptr = static_cast<const char *>(ptr);
    for (; len; --len) { hash ^= static_cast<size_t>(*cptr++); hash *= static_cast<size_t>(1099511628211ULL); }
    return hash;
}
namespace __detail {
static const unsigned long prime_list[] = {2ul, 3ul, 5ul, 7ul, 11ul, 13ul, 17ul, 19ul, 23ul, 29ul, 31ul, 37ul, 41ul, 43ul, 47ul, 53ul, 59ul, 61ul, 67ul, 71ul, 73ul, 79ul, 83ul, 89ul, 97ul, 103ul, 109ul, 113ul, 127ul, 137ul, 139ul, 149ul, 157ul, 167ul, 179ul, 193ul, 199ul, 211ul, 227ul, 241ul, 257ul, 277ul, 293ul, 313ul, 337ul, 359ul, 383ul, 409ul, 439ul, 467ul, 503ul, 541ul, 577ul, 619ul, 661ul, 709ul, 761ul, 823ul, 887ul, 953ul, 1031ul, 1109ul, 1193ul, 1289ul, 1381ul, 1493ul, 1613ul, 1741ul, 1879ul, 2029ul, 2179ul, 2357ul, 2549ul, 2753ul, 2971ul, 3209ul, 3469ul, 3739ul, 4027ul, 4349ul, 4703ul, 5087ul, 5503ul, 5953ul, 6427ul, 6949ul, 7517ul, 8123ul, 8783ul, 9497ul, 10273ul, 11113ul, 12011ul, 12983ul, 14033ul, 15173ul, 16411ul, 17749ul, 19183ul, 20753ul, 22447ul, 24281ul, 26267ul, 28411ul, 30727ul, 33223ul, 35933ul, 38873ul, 42043ul, 45481ul, 49201ul, 53201ul, 57557ul, 62233ul, 67307ul, 72817ul, 78779ul, 85229ul, 92203ul, 99733ul, 107897ul, 116731ul, 126271ul, 136607ul, 147793ul, 159871ul, 172933ul, 187091ul, 202409ul, 218971ul, 236897ul, 256279ul, 277261ul, 299951ul, 324503ul, 351061ul, 379787ul, 410857ul, 444487ul, 480881ul, 520241ul, 562841ul, 608903ul, 658753ul, 712697ul, 771049ul, 834181ul, 902483ul, 976369ul};
size_t _Prime_rehash_policy::_M_next_bkt(size_t n) const {
    static const unsigned char fast_bkt[] = {2, 2, 2, 3, 5, 5, 7, 7, 11, 11, 11, 11, 13, 13};
    if (n < sizeof(fast_bkt)) {
        if (n == 0) return 1;
        _M_next_resize = (size_t)__builtin_floor(fast_bkt[n] * (double)_M_max_load_factor);
        return fast_bkt[n];
    }
    const unsigned long *last = prime_list + sizeof(prime_list) / sizeof(prime_list[0]) - 1;
    const unsigned long *p = prime_list + 6;
    while (p != last && *p < n) ++p;
    _M_next_resize = (size_t)__builtin_floor(*p * (double)_M_max_load_factor);
    return *p;
}
std::pair<bool, size_t> _Prime_rehash_policy::_M_need_rehash(size_t n_bkt, size_t n_elt, size_t n_ins) const {
    if (n_elt + n_ins > _M_next_resize) {
        double min_bkts = std::max<size_t>(n_elt + n_ins, _M_next_resize ? 0 : 11) / (double)_M_max_load_factor;
        if (min_bkts >= n_bkt) return {true, _M_next_bkt(std::max<size_t>((size_t)__builtin_floor(min_bkts) + 1, n_bkt * 2))};
        _M_next_resize = (size_t)__builtin_floor(n_bkt * (double)_M_max_load_factor);
        return {false, 0};
    }
    return {false, 0};
}
}  // namespace __detail
}  // namespace std

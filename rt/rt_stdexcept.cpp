// Models of the libstdc++ exception classes whose members live in libstdc++.so, so that the
// real throw sites in hgraph (std::runtime_error, std::logic_error, ...) execute inside symx.
// The __cow_string payload is a private malloc'd NUL-terminated copy.
#include <cstdlib>
#include <cstring>
#include <exception>
#include <functional>
#include <new>
#include <stdexcept>
#include <string>
#include <typeinfo>
namespace std {
static const char *dup_msg(const char *s, size_t n) { char *p = static_cast<char *>(malloc(n + 1)); memcpy(p, s, n); p[n] = 0; return p; }
__cow_string::__cow_string() : _M_p(dup_msg("", 0)) {}
__cow_string::__cow_string(const std::string &s) : _M_p(dup_msg(s.data(), s.size())) {}
__cow_string::__cow_string(const char *s, size_t n) : _M_p(dup_msg(s, n)) {}
__cow_string::__cow_string(const __cow_string &o) noexcept : _M_p(dup_msg(o._M_p, strlen(o._M_p))) {}
__cow_string &__cow_string::operator=(const __cow_string &o) noexcept { if (this != &o) { free(const_cast<char *>(_M_p)); _M_p = dup_msg(o._M_p, strlen(o._M_p)); } return *this; }
__cow_string::~__cow_string() { free(const_cast<char *>(_M_p)); }
__cow_string::__cow_string(__cow_string &&o) noexcept : _M_p(o._M_p) { o._M_p = dup_msg("", 0); }
__cow_string &__cow_string::operator=(__cow_string &&o) noexcept { const char *t = _M_p; _M_p = o._M_p; o._M_p = t; return *this; }

exception::~exception() noexcept {}
const char *exception::what() const noexcept { return "std::exception"; }
bad_exception::~bad_exception() noexcept {}
const char *bad_exception::what() const noexcept { return "std::bad_exception"; }
bad_alloc::~bad_alloc() noexcept {}
const char *bad_alloc::what() const noexcept { return "std::bad_alloc"; }
bad_array_new_length::~bad_array_new_length() noexcept {}
const char *bad_array_new_length::what() const noexcept { return "std::bad_array_new_length"; }
bad_cast::~bad_cast() noexcept {}
const char *bad_cast::what() const noexcept { return "std::bad_cast"; }
bad_typeid::~bad_typeid() noexcept {}
const char *bad_typeid::what() const noexcept { return "std::bad_typeid"; }
bad_function_call::~bad_function_call() noexcept {}
const char *bad_function_call::what() const noexcept { return "bad_function_call"; }

logic_error::logic_error(const string &a) : exception(), _M_msg(a) {}
logic_error::logic_error(const char *a) : exception(), _M_msg(a, strlen(a)) {}
logic_error::logic_error(const logic_error &o) noexcept : exception(o), _M_msg(o._M_msg) {}
logic_error &logic_error::operator=(const logic_error &o) noexcept { _M_msg = o._M_msg; return *this; }
logic_error::logic_error(logic_error &&o) noexcept : exception(o), _M_msg(o._M_msg) {}
logic_error &logic_error::operator=(logic_error &&o) noexcept { _M_msg = o._M_msg; return *this; }
logic_error::~logic_error() noexcept {}
const char *logic_error::what() const noexcept { return _M_msg._M_p; }
runtime_error::runtime_error(const string &a) : exception(), _M_msg(a) {}
runtime_error::runtime_error(const char *a) : exception(), _M_msg(a, strlen(a)) {}
runtime_error::runtime_error(const runtime_error &o) noexcept : exception(o), _M_msg(o._M_msg) {}
runtime_error &runtime_error::operator=(const runtime_error &o) noexcept { _M_msg = o._M_msg; return *this; }
runtime_error::runtime_error(runtime_error &&o) noexcept : exception(o), _M_msg(o._M_msg) {}
runtime_error &runtime_error::operator=(runtime_error &&o) noexcept { _M_msg = o._M_msg; return *this; }
runtime_error::~runtime_error() noexcept {}
const char *runtime_error::what() const noexcept { return _M_msg._M_p; }
#define DERIVED(cls, base) \
    cls::cls(const string &a) : base(a) {} \
    cls::cls(const char *a) : base(a) {} \
    cls::~cls() noexcept {}
DERIVED(domain_error, logic_error)
DERIVED(invalid_argument, logic_error)
DERIVED(length_error, logic_error)
DERIVED(out_of_range, logic_error)
DERIVED(range_error, runtime_error)
DERIVED(overflow_error, runtime_error)
DERIVED(underflow_error, runtime_error)

void __throw_bad_exception() { throw bad_exception(); }
void __throw_bad_alloc() { throw bad_alloc(); }
void __throw_bad_array_new_length() { throw bad_array_new_length(); }
void __throw_bad_cast() { throw bad_cast(); }
void __throw_bad_typeid() { throw bad_typeid(); }
void __throw_logic_error(const char *s) { throw logic_error(s); }
void __throw_domain_error(const char *s) { throw domain_error(s); }
void __throw_invalid_argument(const char *s) { throw invalid_argument(s); }
void __throw_length_error(const char *s) { throw length_error(s); }
void __throw_out_of_range(const char *s) { throw out_of_range(s); }
void __throw_out_of_range_fmt(const char *s, ...) { throw out_of_range(s); }
void __throw_runtime_error(const char *s) { throw runtime_error(s); }
void __throw_range_error(const char *s) { throw range_error(s); }
void __throw_overflow_error(const char *s) { throw overflow_error(s); }
void __throw_underflow_error(const char *s) { throw underflow_error(s); }
void __throw_bad_function_call() { throw bad_function_call(); }
void __throw_system_error(int) { throw runtime_error("system_error"); }
const nothrow_t nothrow{};
}  // namespace std

// Model of libstdc++'s out-of-line red-black tree helpers (src/c++98/tree.cc), executed by symx
// like any other code.  Re-implemented from the CLRS algorithms with libstdc++'s node layout and
// header conventions (header.parent = root, header.left = leftmost, header.right = rightmost).
#include <bits/stl_tree.h>
namespace std {
static _Rb_tree_node_base *local_increment(_Rb_tree_node_base *x) throw() {
    if (x->_M_right != 0) { x = x->_M_right; while (x->_M_left != 0) x = x->_M_left; }
    else { _Rb_tree_node_base *y = x->_M_parent; while (x == y->_M_right) { x = y; y = y->_M_parent; } if (x->_M_right != y) x = y; }
    return x;
}
_Rb_tree_node_base *_Rb_tree_increment(_Rb_tree_node_base *x) throw() { return local_increment(x); }
const _Rb_tree_node_base *_Rb_tree_increment(const _Rb_tree_node_base *x) throw() { return local_increment(const_cast<_Rb_tree_node_base *>(x)); }
static _Rb_tree_node_base *local_decrement(_Rb_tree_node_base *x) throw() {
    if (x->_M_color == _S_red && x->_M_parent->_M_parent == x) x = x->_M_right;
    else if (x->_M_left != 0) { _Rb_tree_node_base *y = x->_M_left; while (y->_M_right != 0) y = y->_M_right; x = y; }
    else { _Rb_tree_node_base *y = x->_M_parent; while (x == y->_M_left) { x = y; y = y->_M_parent; } x = y; }
    return x;
}
_Rb_tree_node_base *_Rb_tree_decrement(_Rb_tree_node_base *x) throw() { return local_decrement(x); }
const _Rb_tree_node_base *_Rb_tree_decrement(const _Rb_tree_node_base *x) throw() { return local_decrement(const_cast<_Rb_tree_node_base *>(x)); }

static void rotate_left(_Rb_tree_node_base *const x, _Rb_tree_node_base *&root) {
    _Rb_tree_node_base *const y = x->_M_right;
    x->_M_right = y->_M_left;
    if (y->_M_left != 0) y->_M_left->_M_parent = x;
    y->_M_parent = x->_M_parent;
    if (x == root) root = y; else if (x == x->_M_parent->_M_left) x->_M_parent->_M_left = y; else x->_M_parent->_M_right = y;
    y->_M_left = x; x->_M_parent = y;
}
static void rotate_right(_Rb_tree_node_base *const x, _Rb_tree_node_base *&root) {
    _Rb_tree_node_base *const y = x->_M_left;
    x->_M_left = y->_M_right;
    if (y->_M_right != 0) y->_M_right->_M_parent = x;
    y->_M_parent = x->_M_parent;
    if (x == root) root = y; else if (x == x->_M_parent->_M_right) x->_M_parent->_M_right = y; else x->_M_parent->_M_left = y;
    y->_M_right = x; x->_M_parent = y;
}
void _Rb_tree_insert_and_rebalance(const bool insert_left, _Rb_tree_node_base *x, _Rb_tree_node_base *p, _Rb_tree_node_base &header) throw() {
    _Rb_tree_node_base *&root = header._M_parent;
    x->_M_parent = p; x->_M_left = 0; x->_M_right = 0; x->_M_color = _S_red;
    if (insert_left) {
        p->_M_left = x;
        if (p == &header) { header._M_parent = x; header._M_right = x; }
        else if (p == header._M_left) header._M_left = x;
    } else {
        p->_M_right = x;
        if (p == header._M_right) header._M_right = x;
    }
    while (x != root && x->_M_parent->_M_color == _S_red) {
        _Rb_tree_node_base *const xpp = x->_M_parent->_M_parent;
        if (x->_M_parent == xpp->_M_left) {
            _Rb_tree_node_base *const y = xpp->_M_right;
            if (y && y->_M_color == _S_red) { x->_M_parent->_M_color = _S_black; y->_M_color = _S_black; xpp->_M_color = _S_red; x = xpp; }
            else {
                if (x == x->_M_parent->_M_right) { x = x->_M_parent; rotate_left(x, root); }
                x->_M_parent->_M_color = _S_black; xpp->_M_color = _S_red; rotate_right(xpp, root);
            }
        } else {
            _Rb_tree_node_base *const y = xpp->_M_left;
            if (y && y->_M_color == _S_red) { x->_M_parent->_M_color = _S_black; y->_M_color = _S_black; xpp->_M_color = _S_red; x = xpp; }
            else {
                if (x == x->_M_parent->_M_left) { x = x->_M_parent; rotate_right(x, root); }
                x->_M_parent->_M_color = _S_black; xpp->_M_color = _S_red; rotate_left(xpp, root);
            }
        }
    }
    root->_M_color = _S_black;
}
_Rb_tree_node_base *_Rb_tree_rebalance_for_erase(_Rb_tree_node_base *const z, _Rb_tree_node_base &header) throw() {
    _Rb_tree_node_base *&root = header._M_parent;
    _Rb_tree_node_base *&leftmost = header._M_left;
    _Rb_tree_node_base *&rightmost = header._M_right;
    _Rb_tree_node_base *y = z;
    _Rb_tree_node_base *x = 0;
    _Rb_tree_node_base *x_parent = 0;
    if (y->_M_left == 0) x = y->_M_right;
    else if (y->_M_right == 0) x = y->_M_left;
    else { y = y->_M_right; while (y->_M_left != 0) y = y->_M_left; x = y->_M_right; }
    if (y != z) {
        z->_M_left->_M_parent = y; y->_M_left = z->_M_left;
        if (y != z->_M_right) {
            x_parent = y->_M_parent;
            if (x) x->_M_parent = y->_M_parent;
            y->_M_parent->_M_left = x;
            y->_M_right = z->_M_right; z->_M_right->_M_parent = y;
        } else x_parent = y;
        if (root == z) root = y; else if (z->_M_parent->_M_left == z) z->_M_parent->_M_left = y; else z->_M_parent->_M_right = y;
        y->_M_parent = z->_M_parent;
        _Rb_tree_color t = y->_M_color; y->_M_color = z->_M_color; z->_M_color = t;
        y = z;
    } else {
        x_parent = y->_M_parent;
        if (x) x->_M_parent = y->_M_parent;
        if (root == z) root = x; else if (z->_M_parent->_M_left == z) z->_M_parent->_M_left = x; else z->_M_parent->_M_right = x;
        if (leftmost == z) { if (z->_M_right == 0) leftmost = z->_M_parent; else { _Rb_tree_node_base *m = x; while (m->_M_left) m = m->_M_left; leftmost = m; } }
        if (rightmost == z) { if (z->_M_left == 0) rightmost = z->_M_parent; else { _Rb_tree_node_base *m = x; while (m->_M_right) m = m->_M_right; rightmost = m; } }
    }
    if (y->_M_color != _S_red) {
        while (x != root && (x == 0 || x->_M_color == _S_black)) {
            if (x == x_parent->_M_left) {
                _Rb_tree_node_base *w = x_parent->_M_right;
                if (w->_M_color == _S_red) { w->_M_color = _S_black; x_parent->_M_color = _S_red; rotate_left(x_parent, root); w = x_parent->_M_right; }
                if ((w->_M_left == 0 || w->_M_left->_M_color == _S_black) && (w->_M_right == 0 || w->_M_right->_M_color == _S_black)) { w->_M_color = _S_red; x = x_parent; x_parent = x_parent->_M_parent; }
                else {
                    if (w->_M_right == 0 || w->_M_right->_M_color == _S_black) { w->_M_left->_M_color = _S_black; w->_M_color = _S_red; rotate_right(w, root); w = x_parent->_M_right; }
                    w->_M_color = x_parent->_M_color; x_parent->_M_color = _S_black;
                    if (w->_M_right) w->_M_right->_M_color = _S_black;
                    rotate_left(x_parent, root);
                    break;
                }
            } else {
                _Rb_tree_node_base *w = x_parent->_M_left;
                if (w->_M_color == _S_red) { w->_M_color = _S_black; x_parent->_M_color = _S_red; rotate_right(x_parent, root); w = x_parent->_M_left; }
                if ((w->_M_right == 0 || w->_M_right->_M_color == _S_black) && (w->_M_left == 0 || w->_M_left->_M_color == _S_black)) { w->_M_color = _S_red; x = x_parent; x_parent = x_parent->_M_parent; }
                else {
                    if (w->_M_left == 0 || w->_M_left->_M_color == _S_black) { w->_M_right->_M_color = _S_black; w->_M_color = _S_red; rotate_left(w, root); w = x_parent->_M_left; }
                    w->_M_color = x_parent->_M_color; x_parent->_M_color = _S_black;
                    if (w->_M_left) w->_M_left->_M_color = _S_black;
                    rotate_right(x_parent, root);
                    break;
                }
            }
        }
        if (x) x->_M_color = _S_black;
    }
    return y;
}
}  // namespace std
